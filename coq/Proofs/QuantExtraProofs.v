(** Extra quantizer facts closing review gaps:
    1. a complete characterisation of the input clamp [clamp_vin];
    2. non-vacuity examples for the premises of the C07 / C09 / C19 theorems;
    3. noise immunity for arbitrary scales (what holds, and what does not);
    4. converting the same input twice in a row is idempotent. *)
From Coq Require Import ZArith Bool List Reals Lia Lra.
Import ListNotations.
From Flocq Require Import Core IEEE754.BinarySingleNaN.
From SU Require Import F32 F32Lemmas.
From SU.gen Require Import Consts.
From SU.Model Require Import Quantizer.
From SU.Spec Require Import QuantSpec.
From SU.Proofs Require Import QuantFloat QuantScan QuantProofs QuantHystProofs QuantRecordProofs.
Open Scope Z_scope.

(** * 1. The input clamp [v_in.max(0.0).min(V_MAX)] *)

(** the upper bound as a literal: 10.0 = 0x41200000 *)
Lemma V_MAX_literal : V_MAX = of_bits 1092616192 /\ fin V_MAX /\ R32 V_MAX = 10%R.
Proof. split; [reflexivity|]. split; [exact fin_V_MAX|exact R32_V_MAX]. Qed.

(** every f32 (finite, both infinities, NaN): the clamped value is finite and in [0, 10];
    finite inputs: [min (max v 0) 10] over the reals, the input itself (same float, so
    [-0.0] stays [-0.0]) inside [0, 10], the bound outside; NaN gives [+0.0] as
    [NaN.max(0.0) = 0.0]; [+inf] gives 10.0, [-inf] gives [+0.0] *)
Theorem clamp_vin_spec : forall v : f32,
  let r := clamp_vin v in
  fin r /\ (0 <= R32 r <= 10)%R /\
  (fin v -> R32 r = Rmin (Rmax (R32 v) 0) 10) /\
  (fin v -> (0 <= R32 v <= 10)%R -> r = v) /\
  (fin v -> (R32 v < 0)%R -> r = f_0) /\
  (fin v -> (10 < R32 v)%R -> r = V_MAX) /\
  (v = B754_nan -> r = f_0) /\
  (v = B754_infinity false -> r = V_MAX) /\
  (v = B754_infinity true -> r = f_0).
Proof.
  intros v r. subst r.
  pose proof (clamp_vin_fin v) as Hreal.
  destruct (clamp_vin_range v) as [Frange Brange].
  unfold clamp_vin in *.
  destruct (clamp_maxmin v f_0 V_MAX fin_f_0 fin_V_MAX V_le)
    as [_ [_ [Hnan [Hin [Hlo [Hhi [Hninf Hpinf]]]]]]].
  rewrite R32_f_0, R32_V_MAX in Hin. rewrite R32_f_0 in Hlo. rewrite R32_V_MAX in Hhi.
  split; [exact Frange|]. split; [exact Brange|]. split; [exact Hreal|].
  split; [exact Hin|]. split; [exact Hlo|]. split; [exact Hhi|].
  split; [exact Hnan|]. split; [exact Hpinf|exact Hninf].
Qed.

(** the three non-finite cases as closed equations *)
Lemma clamp_vin_nan : clamp_vin B754_nan = f_0.
Proof.
  destruct (clamp_vin_spec B754_nan) as [_ [_ [_ [_ [_ [_ [H _]]]]]]]. apply H. reflexivity.
Qed.

Lemma clamp_vin_pinf : clamp_vin (B754_infinity false) = V_MAX.
Proof.
  destruct (clamp_vin_spec (B754_infinity false)) as [_ [_ [_ [_ [_ [_ [_ [H _]]]]]]]].
  apply H. reflexivity.
Qed.

Lemma clamp_vin_ninf : clamp_vin (B754_infinity true) = f_0.
Proof.
  destruct (clamp_vin_spec (B754_infinity true)) as [_ [_ [_ [_ [_ [_ [_ [_ H]]]]]]]].
  apply H. reflexivity.
Qed.

(** signed zero: the clamp does not normalise [-0.0] (Rust leaves the sign of
    [(-0.0f32).max(0.0)] unspecified; the model returns the receiver) *)
Lemma clamp_vin_neg_zero : clamp_vin f_n0 = f_n0.
Proof.
  destruct (clamp_vin_spec f_n0) as [_ [_ [_ [H _]]]].
  apply H; [reflexivity|]. unfold R32, f_n0. simpl. lra.
Qed.

(** idempotent, as floats (no identification of signed zeros needed) *)
Theorem clamp_vin_idem : forall v : f32, clamp_vin (clamp_vin v) = clamp_vin v.
Proof.
  intros v. destruct (clamp_vin_range v) as [F B].
  destruct (clamp_vin_spec (clamp_vin v)) as [_ [_ [_ [H _]]]].
  apply H; assumption.
Qed.

(** * 2. Non-vacuity of the premises used in Props/C07.v, C09.v, C19.v *)

(** f32 literals (bit patterns of the nearest f32) *)
Definition v_0_5 : f32 := of_bits 1056964608.      (* 0.5 *)
Definition v_0_5042 : f32 := of_bits 1057034513.   (* 0.5 + 0.05/12 = 0.50416666 *)
Definition v_0_7 : f32 := of_bits 1060320051.      (* 0.7 *)
Definition v_0_496 : f32 := of_bits 1056830390.    (* 0.496 *)
Definition v_0_504 : f32 := of_bits 1057031717.    (* 0.504 *)
Definition v_0_25 : f32 := of_bits 1048576000.     (* 0.25 *)
Definition v_10 : f32 := of_bits 1092616192.       (* 10.0 *)

Lemma wf_convert_only : forall vs, wf_ops (map QConvert vs).
Proof. intros vs. unfold wf_ops. apply Forall_forall. intros o Ho.
  apply in_map_iff in Ho. destruct Ho as [v [<- _]]. exact I. Qed.

(** a reachable state (new quantizer, then 0.5 V -> note 6) and an input inside the
    window of the cached note: the premise [keeps q v = true] holds, the note is kept *)
Example ex_keeps :
  let ops := [QConvert v_0_5] in
  let q := qrun ops in
  wf_ops ops /\ c_note (q_cached q) = 6 /\
  keeps q v_0_5042 = true /\ c_note (snd (convert q v_0_5042)) = 6.
Proof.
  cbv zeta. split; [exact (wf_convert_only [v_0_5])|].
  vm_compute. repeat split; reflexivity.
Qed.

(** the same state and an input outside the window (0.7 V -> note 8) *)
Example ex_not_keeps :
  let ops := [QConvert v_0_5] in
  let q := qrun ops in
  wf_ops ops /\ keeps q v_0_7 = false /\ c_note (snd (convert q v_0_7)) = 8.
Proof.
  cbv zeta. split; [exact (wf_convert_only [v_0_5])|].
  vm_compute. repeat split; reflexivity.
Qed.

(** [C19_window_fraction] instantiated: its premises hold for this state and input, so
    its conclusion applies; the fraction is the f32 0x3b888880 = 0.004166662693023682 = 0.05/12 rounded *)
Example ex_window_fraction :
  let ops := [QConvert v_0_5] in
  let q := qrun ops in
  let c := snd (convert q v_0_5042) in
  wf_ops ops /\ keeps q v_0_5042 = true /\
  to_bits (c_frac c) = Some 998803584 /\
  (fin (c_frac c) /\ - / 120 - / 262144 <= R32 (c_frac c) <= / 12 + / 120 + / 262144)%R.
Proof.
  cbv zeta.
  assert (Hwf : wf_ops [QConvert v_0_5]) by exact (wf_convert_only [v_0_5]).
  assert (K : keeps (qrun [QConvert v_0_5]) v_0_5042 = true) by (vm_compute; reflexivity).
  split; [exact Hwf|]. split; [exact K|]. split; [vm_compute; reflexivity|].
  exact (window_fraction [QConvert v_0_5] v_0_5042 Hwf K).
Qed.

(** [C07_forbid_keeps_last]: C major, then a forbid call naming every remaining note; the
    last entry (200, acting as 11) stays allowed *)
Example ex_forbid_keeps_last :
  let ops := [QForbid [1; 3; 6; 8; 10]] in
  let ns := [0; 2; 4; 5; 7; 9; 11; 200] in
  let q := qrun ops in
  wf_ops ops /\ u8_notes ns /\ q_allowed q = 2741 /\ forbid_bits (q_allowed q) ns = 0 /\
  q_allowed (quant_forbid q ns) = 2048 /\ Z.shiftl 1 (note_new (last ns 0)) = 2048.
Proof.
  cbv zeta. split.
  { unfold wf_ops. constructor; [|constructor]. cbn [wf_op]. unfold u8_notes.
    repeat constructor; lia. }
  split.
  { unfold u8_notes. repeat constructor; lia. }
  vm_compute. repeat split; reflexivity.
Qed.

(** closes [fin x /\ |x - k/12| <= HYST - 2^-18] for a closed float [x] *)
Ltac near_const x :=
  split; [fin_const|]; r32_const x; r32_const HYST; apply Rabs_le; simpl IZR; lra.

(** [C09_noise_one_change]: chromatic scale, boundary 6/12 = 0.5 V; the premises hold for
    0.496, 0.504, 0.496, 0.5 and the notes are all the first one *)
Example ex_noise_one_change :
  let ops := @nil quant_op in
  let vs := [v_0_496; v_0_504; v_0_496; v_0_5] in
  wf_ops ops /\ q_allowed (qrun ops) = 4095 /\ 1 <= 6 <= 120 /\
  (forall x, In x vs -> fin x /\ (Rabs (R32 x - IZR 6 / 12) <= R32 HYST - / 262144)%R) /\
  convert_seq (qrun ops) vs = [5; 5; 5; 5] /\
  convert_seq (qrun ops) [v_0_504; v_0_496] = [6; 6].
Proof.
  cbv zeta. split; [constructor|]. split; [reflexivity|]. split; [lia|]. split.
  { intros x Hx. cbn [In] in Hx.
    destruct Hx as [<-|[<-|[<-|[<-|[]]]]].
    - near_const v_0_496.
    - near_const v_0_504.
    - near_const v_0_496.
    - near_const v_0_5. }
  vm_compute. split; reflexivity.
Qed.

(** [C09_monotone]: a reachable state (D forbidden after a conversion at 0.25 V), a
    non-decreasing input list, and the note list it yields *)
Example ex_monotone :
  let ops := [QConvert v_0_25; QForbid [2]] in
  let vs := [f_0; v_0_25; v_0_5; v_0_5042; v_0_7; v_10; B754_infinity false] in
  wf_ops ops /\ fle_sorted vs /\
  convert_seq (qrun ops) vs = [0; 3; 6; 6; 8; 120; 120] /\
  nondecreasing (convert_seq (qrun ops) vs).
Proof.
  cbv zeta.
  assert (Hwf : wf_ops [QConvert v_0_25; QForbid [2]]).
  { unfold wf_ops. constructor; [exact I|]. constructor; [|constructor].
    cbn [wf_op]. unfold u8_notes. repeat constructor; lia. }
  assert (Hs : fle_sorted [f_0; v_0_25; v_0_5; v_0_5042; v_0_7; v_10; B754_infinity false]).
  { vm_compute. repeat split; reflexivity. }
  split; [exact Hwf|]. split; [exact Hs|]. split; [vm_compute; reflexivity|].
  exact (hysteresis_monotone _ _ Hwf Hs).
Qed.

(** * 3. Noise immunity for arbitrary scales *)

(** once a note satisfying [P] is reported, every later note equals it *)
Fixpoint sticky (P : Z -> Prop) (l : list Z) : Prop :=
  match l with
  | [] => True
  | a :: rest => (P a -> forall m, In m rest -> m = a) /\ sticky P rest
  end.

(** number of positions at which a note list changes value *)
Fixpoint changes (l : list Z) : nat :=
  match l with
  | a :: ((b :: _) as rest) => ((if (a =? b)%Z then 0 else 1) + changes rest)%nat
  | _ => 0%nat
  end.

(** the clamped input lies strictly inside the f32 hysteresis window of note [n],
    exactly as [convert] tests it (see [in_note_window_iff] for the real-valued reading) *)
Definition in_note_window (n : Z) (x : f32) : Prop :=
  in_window (mkConv n (stair_of n) f_0) (clamp_vin x) = true.

Lemma in_note_window_iff : forall n x, 0 <= n <= 131 ->
  (in_note_window n x <-> (R32 (win_lo n) < R32 (clamp_vin x) < R32 (win_hi n))%R).
Proof.
  intros n x Hn. unfold in_note_window. rewrite (window_test n (clamp_vin x) Hn).
  destruct (clamp_vin_range x) as [F _]. tauto.
Qed.

Lemma in_window_same_stair : forall c n v, c_stair c = stair_of n ->
  in_window c v = in_window (mkConv n (stair_of n) f_0) v.
Proof.
  intros c n v Hs. rewrite (in_window_stair c n v Hs).
  rewrite (in_window_stair (mkConv n (stair_of n) f_0) n v eq_refl). reflexivity.
Qed.

(** what [convert] leaves behind, on either path *)
Lemma convert_state : forall q v, valid_mask (q_allowed q) -> cached_ok (q_cached q) ->
  let q' := fst (convert q v) in
  let c := snd (convert q v) in
  valid_mask (q_allowed q') /\ cached_ok (q_cached q') /\
  q_allowed q' = q_allowed q /\ q_cached q' = c /\
  c_stair c = stair_of (c_note c) /\ note_allowed (q_allowed q) (c_note c) = true.
Proof.
  intros q v Ha Hc q' c. subst q' c.
  destruct (convert_shape q v Ha Hc) as [N [HN [E1 [E2 _]]]].
  pose proof (convert_note_allowed_gen q v Ha) as Hal.
  pose proof (convert_cached_ok q v Ha Hc) as Hc'.
  pose proof (convert_keeps_mask q v) as Hm.
  split; [rewrite Hm; exact Ha|]. split; [exact Hc'|]. split; [exact Hm|].
  split; [rewrite E2; reflexivity|]. split; [rewrite E1; reflexivity|exact Hal].
Qed.

(** a cached allowed note [N] is kept as long as every input is inside its window *)
Lemma keep_all : forall N vs q,
  note_allowed (q_allowed q) N = true ->
  c_note (q_cached q) = N -> c_stair (q_cached q) = stair_of N ->
  (forall x, In x vs -> in_note_window N x) ->
  forall m, In m (convert_seq q vs) -> m = N.
Proof.
  intros N vs. induction vs as [|x rest IH]; intros q Hal Hn Hst Hvs m Hin.
  - destruct Hin.
  - cbn [convert_seq] in Hin. destruct (convert q x) as [q' c'] eqn:E.
    assert (E1 : q' = fst (convert q x)) by (rewrite E; reflexivity).
    assert (E2 : c' = snd (convert q x)) by (rewrite E; reflexivity).
    assert (K : keeps q x = true).
    { apply keeps_intro.
      - rewrite Hn. exact Hal.
      - rewrite (in_window_same_stair (q_cached q) N (clamp_vin x) Hst).
        apply Hvs. left. reflexivity. }
    destruct (keep_spec q x K) as [K1 [K2 [K3 K4]]]. cbv zeta in K1, K2, K3, K4.
    rewrite <- E1 in K3, K4. rewrite <- E2 in K1, K2, K3.
    destruct Hin as [Hin|Hin].
    + rewrite <- Hin, K1. exact Hn.
    + apply (IH q').
      * rewrite K4. exact Hal.
      * rewrite K3, K1. exact Hn.
      * rewrite K3, K2. exact Hst.
      * intros y Hy. apply Hvs. right. exact Hy.
      * exact Hin.
Qed.

(** every scale, every sane state: if all inputs lie inside the windows of all notes
    satisfying [W], the note sequence is sticky on [W] *)
Lemma sticky_gen : forall (W : Z -> Prop) vs q,
  valid_mask (q_allowed q) -> cached_ok (q_cached q) ->
  (forall n x, W n -> In x vs -> in_note_window n x) ->
  sticky W (convert_seq q vs).
Proof.
  intros W vs. induction vs as [|x rest IH]; intros q Ha Hc Hvs.
  - exact I.
  - cbn [convert_seq]. destruct (convert q x) as [q' c'] eqn:E.
    assert (E1 : q' = fst (convert q x)) by (rewrite E; reflexivity).
    assert (E2 : c' = snd (convert q x)) by (rewrite E; reflexivity).
    destruct (convert_state q x Ha Hc) as [Ha' [Hc' [Hm [Hq [Hs Hal]]]]].
    cbv zeta in Ha', Hc', Hm, Hq, Hs, Hal.
    rewrite <- E1 in Ha', Hc', Hm, Hq. rewrite <- E2 in Hq, Hs, Hal.
    cbn [sticky]. split.
    + intros HW m Hin.
      apply (keep_all (c_note c') rest q').
      * rewrite Hm. exact Hal.
      * rewrite Hq. reflexivity.
      * rewrite Hq. exact Hs.
      * intros y Hy. apply Hvs; [exact HW|right; exact Hy].
      * exact Hin.
    + apply IH; [exact Ha'|exact Hc'|].
      intros n y Hn Hy. apply Hvs; [exact Hn|right; exact Hy].
Qed.

(** ** inputs inside the window of one note *)

(** ANY scale, any reachable state, any inputs (finite or not) whose clamped value lies
    strictly inside the f32 window of note [n]: once [n] is reported it never changes *)
Theorem window_sticky : forall ops n vs, wf_ops ops -> 0 <= n <= 131 ->
  (forall x, In x vs -> (R32 (win_lo n) < R32 (clamp_vin x) < R32 (win_hi n))%R) ->
  sticky (fun m => m = n) (convert_seq (qrun ops) vs).
Proof.
  intros ops n vs Hwf Hn Hvs.
  apply sticky_gen; [exact (mask_invariant ops Hwf)|exact (cached_invariant ops Hwf)|].
  intros n' x -> Hx. apply (in_note_window_iff n x Hn). apply Hvs. exact Hx.
Qed.

(** the same started at the conversion that reports [n] *)
Corollary window_sticky_from : forall ops n v vs, wf_ops ops -> 0 <= n <= 131 ->
  (forall x, In x vs -> (R32 (win_lo n) < R32 (clamp_vin x) < R32 (win_hi n))%R) ->
  c_note (snd (convert (qrun ops) v)) = n ->
  forall m, In m (convert_seq (fst (convert (qrun ops) v)) vs) -> m = n.
Proof.
  intros ops n v vs Hwf Hn Hvs Hv m Hin.
  destruct (convert_state (qrun ops) v (mask_invariant ops Hwf) (cached_invariant ops Hwf))
    as [Ha' [Hc' [Hm [Hq [Hs Hal]]]]]. cbv zeta in Ha', Hc', Hm, Hq, Hs, Hal.
  apply (keep_all n vs (fst (convert (qrun ops) v))).
  - rewrite Hm, <- Hv. exact Hal.
  - rewrite Hq. exact Hv.
  - rewrite Hq, Hs, Hv. reflexivity.
  - intros x Hx. apply (in_note_window_iff n x Hn). apply Hvs. exact Hx.
  - exact Hin.
Qed.

(** ** inputs within the hysteresis width of a semitone boundary [k/12] *)

(** [near k x] (Proofs/QuantHystProofs.v) unfolded *)
Lemma near_iff : forall k x,
  near k x <-> (fin x /\ (Rabs (R32 x - IZR k / 12) <= R32 HYST - / 262144)%R).
Proof. intros k x. reflexivity. Qed.

Lemma near_both_windows : forall k x n, 1 <= k <= 120 -> near k x ->
  n = k - 1 \/ n = k -> in_note_window n x.
Proof.
  intros k x n Hk Hx Hn. unfold in_note_window.
  apply (near_in_window k x (mkConv n (stair_of n) f_0) n Hk Hx Hn). reflexivity.
Qed.

(** ANY scale: once the note below or above the boundary is reported it never changes *)
Theorem noise_sticky : forall ops k vs, wf_ops ops -> 1 <= k <= 120 ->
  (forall x, In x vs -> fin x /\ (Rabs (R32 x - IZR k / 12) <= R32 HYST - / 262144)%R) ->
  sticky (fun m => m = k - 1 \/ m = k) (convert_seq (qrun ops) vs).
Proof.
  intros ops k vs Hwf Hk Hvs.
  apply sticky_gen; [exact (mask_invariant ops Hwf)|exact (cached_invariant ops Hwf)|].
  intros n x Hn Hx. apply (near_both_windows k x n Hk); [|exact Hn].
  apply near_iff. apply Hvs. exact Hx.
Qed.

(** microvolts of an input near the boundary *)
Lemma near_vin : forall k x, 1 <= k <= 120 -> near k x ->
  let vin := vin_microvolts (clamp_vin x) in
  cand k - 8334 <= vin <= cand k + 8338 /\ 83333 <= cand k <= 10000000.
Proof.
  intros k x Hk Hx vin. pose proof (near_clamp k x Hk Hx) as B.
  destruct (clamp_vin_range x) as [Fc Bc].
  pose proof (cand_real k ltac:(lia)) as [Hc1 Hc2].
  assert (Hck : 83333 <= cand k <= 10000000) by (unfold cand; consts; dlia).
  split; [|exact Hck]. split.
  - apply vin_ge; [exact Fc|exact Bc|lia|]. rewrite minus_IZR. lra.
  - apply vin_le; [exact Fc|exact Bc|lia|]. rewrite plus_IZR. lra.
Qed.

(** the search, any scale in which the upper note [k] is allowed: [k-1] or [k] *)
Lemma near_search_upper : forall a k x, valid_mask a -> 1 <= k <= 120 -> near k x ->
  note_allowed a k = true ->
  let R := find_nearest_note a (clamp_vin x) in R = k - 1 \/ R = k.
Proof.
  intros a k x Ha Hk Hx Hal R.
  destruct (near_vin k x Hk Hx) as [[Hlo Hhi] Hck]. cbv zeta in Hlo, Hhi.
  destruct (nearest_correct a x Ha) as [Hv [S [_ E]]]. cbv zeta in Hv, S, E.
  fold R in E. rewrite <- E in S. clear E.
  set (vin := vin_microvolts (clamp_vin x)) in *.
  assert (IB : in_bucket a vin k).
  { split; [apply in_all_notes; lia|]. split; [exact Hal|]. unfold dist. consts. lia. }
  destruct S as [InR [_ [[D Hmin]|[Hno _]]]]; [|exfalso; exact (Hno k IB)].
  apply in_all_notes in InR. pose proof (Hmin k IB) as Hle.
  destruct (Z_le_gt_dec R (k - 2)) as [H2|H2]; [exfalso|lia].
  pose proof (cand_gap (k - 1) k ltac:(lia) ltac:(lia) ltac:(lia)) as G1.
  pose proof (cand_gap R (k - 1) InR ltac:(lia) ltac:(lia)) as G2.
  unfold dist in D. consts. lia.
Qed.

(** the search, any scale in which the lower note [k-1] is allowed: never below [k-1] *)
Lemma near_search_lower : forall a k x, valid_mask a -> 1 <= k <= 120 -> near k x ->
  note_allowed a (k - 1) = true ->
  k - 1 <= find_nearest_note a (clamp_vin x).
Proof.
  intros a k x Ha Hk Hx Hal.
  destruct (near_vin k x Hk Hx) as [[Hlo Hhi] Hck]. cbv zeta in Hlo, Hhi.
  destruct (nearest_correct a x Ha) as [Hv [S [_ E]]]. cbv zeta in Hv, S, E.
  rewrite E.
  apply (nearest_ge a (vin_microvolts (clamp_vin x))); [exact S|lia|exact Hal|].
  pose proof (cand_gap (k - 1) k ltac:(lia) ltac:(lia) ltac:(lia)) as G1.
  consts. lia.
Qed.

(** the search, any scale: a result above [k] is the least allowed note above [k] *)
Lemma near_search_above : forall a k x N, valid_mask a -> 1 <= k <= 120 -> near k x ->
  k + 1 <= find_nearest_note a (clamp_vin x) ->
  k + 1 <= N <= 131 -> note_allowed a N = true ->
  find_nearest_note a (clamp_vin x) <= N.
Proof.
  intros a k x N Ha Hk Hx HR HN Hal.
  destruct (near_vin k x Hk Hx) as [[Hlo Hhi] Hck]. cbv zeta in Hlo, Hhi.
  destruct (nearest_correct a x Ha) as [Hv [S [_ E]]]. cbv zeta in Hv, S, E.
  set (R := find_nearest_note a (clamp_vin x)) in *. rewrite <- E in S. clear E.
  set (vin := vin_microvolts (clamp_vin x)) in *.
  destruct (Z_le_gt_dec R N) as [Hle|Hgt]; [exact Hle|exfalso].
  destruct S as [InR [_ S]]. apply in_all_notes in InR.
  pose proof (cand_gap k N ltac:(lia) ltac:(lia) ltac:(lia)) as G1.
  pose proof (cand_gap N R ltac:(lia) InR ltac:(lia)) as G2.
  assert (InN : In N all_notes) by (apply in_all_notes; lia).
  destruct S as [[D Hmin]|[_ M]].
  - assert (IB : in_bucket a vin N).
    { split; [exact InN|]. split; [exact Hal|]. unfold dist in *. consts. lia. }
    pose proof (Hmin N IB). lia.
  - destruct (M N InN Hal) as [H|[H _]]; unfold dist in H; consts; lia.
Qed.

(** ANY scale in which the note [k] above the boundary is allowed (the note below need not
    be): after the first conversion the note never changes.  Generalises
    [C09_noise_one_change] (chromatic scale) *)
Theorem noise_upper_allowed_gen : forall q k v vs,
  valid_mask (q_allowed q) -> cached_ok (q_cached q) -> 1 <= k <= 120 ->
  note_allowed (q_allowed q) k = true ->
  (forall x, In x (v :: vs) -> fin x /\ (Rabs (R32 x - IZR k / 12) <= R32 HYST - / 262144)%R) ->
  forall n, In n (convert_seq q (v :: vs)) -> n = hd 0 (convert_seq q (v :: vs)).
Proof.
  intros q k v vs Ha Hc Hk Hal Hvs n Hin.
  assert (Hnear : forall x, In x (v :: vs) -> near k x).
  { intros x Hx. apply near_iff. apply Hvs. exact Hx. }
  pose proof (sticky_gen (fun m => m = k - 1 \/ m = k) (v :: vs) q Ha Hc) as S.
  assert (S' : sticky (fun m => m = k - 1 \/ m = k) (convert_seq q (v :: vs))).
  { apply S. intros m x Hm Hx. exact (near_both_windows k x m Hk (Hnear x Hx) Hm). }
  clear S.
  cbn [convert_seq] in Hin, S' |- *. destruct (convert q v) as [q' c'] eqn:E. cbn [hd].
  assert (E2 : c' = snd (convert q v)) by (rewrite E; reflexivity).
  assert (Hv : near k v) by (apply Hnear; left; reflexivity).
  assert (HN : c_note c' = k - 1 \/ c_note c' = k).
  { destruct (convert_cases q v) as [_ [_ [[K [Hn Hs]]|[K [Hn Hs]]]]]; rewrite <- E2 in Hn.
    - destruct (keeps_cached q v Hc K) as [HN [Hst [_ _]]]. cbv zeta in HN, Hst.
      apply keeps_window in K. destruct K as [_ W].
      rewrite Hn. exact (near_window_inv k v _ _ Hk Hv HN Hst W).
    - rewrite Hn. exact (near_search_upper (q_allowed q) k v Ha Hk Hv Hal). }
  cbn [sticky] in S'. destruct S' as [S1 _].
  destruct Hin as [Hin|Hin]; [symmetry; exact Hin|].
  exact (S1 HN n Hin).
Qed.

Theorem noise_upper_allowed : forall ops k v vs, wf_ops ops -> 1 <= k <= 120 ->
  note_allowed (q_allowed (qrun ops)) k = true ->
  (forall x, In x (v :: vs) -> fin x /\ (Rabs (R32 x - IZR k / 12) <= R32 HYST - / 262144)%R) ->
  forall n, In n (convert_seq (qrun ops) (v :: vs)) ->
            n = hd 0 (convert_seq (qrun ops) (v :: vs)).
Proof.
  intros ops k v vs Hwf Hk Hal Hvs.
  exact (noise_upper_allowed_gen (qrun ops) k v vs (mask_invariant ops Hwf)
           (cached_invariant ops Hwf) Hk Hal Hvs).
Qed.

(** ** at most one change when the note below the boundary is allowed *)

Lemma changes_const : forall a l, (forall m, In m l -> m = a) -> changes (a :: l) = 0%nat.
Proof.
  intros a l. revert a. induction l as [|b r IH]; intros a H; [reflexivity|].
  assert (Eb : b = a) by (apply H; left; reflexivity). subst b.
  cbn [changes]. rewrite Z.eqb_refl. cbn [Nat.add]. apply IH.
  intros m Hm. apply H. right. exact Hm.
Qed.

Lemma changes_le_1 : forall (S : Z -> Prop) l, (forall n, {S n} + {~ S n}) ->
  (forall n m, In n l -> In m l -> ~ S n -> ~ S m -> n = m) ->
  sticky S l -> (changes l <= 1)%nat.
Proof.
  intros S l Sdec. induction l as [|a rest IH]; intros Huniq Hst; [cbn; lia|].
  cbn [sticky] in Hst. destruct Hst as [Ha Hrest].
  destruct (Sdec a) as [Sa|NSa].
  - rewrite (changes_const a rest (Ha Sa)). lia.
  - destruct rest as [|b r]; [cbn; lia|].
    assert (IHr : (changes (b :: r) <= 1)%nat).
    { apply IH; [|exact Hrest]. intros n m Hn Hm. apply Huniq; right; assumption. }
    destruct (Sdec b) as [Sb|NSb].
    + cbn [sticky] in Hrest. destruct Hrest as [Hb _].
      pose proof (changes_const b r (Hb Sb)) as Hc.
      change (changes (a :: b :: r)) with ((if (a =? b)%Z then 0 else 1) + changes (b :: r))%nat.
      rewrite Hc. destruct (a =? b); lia.
    + assert (Eab : a = b).
      { apply Huniq; [left; reflexivity|right; left; reflexivity|exact NSa|exact NSb]. }
      change (changes (a :: b :: r)) with ((if (a =? b)%Z then 0 else 1) + changes (b :: r))%nat.
      rewrite Eab, Z.eqb_refl. cbn [Nat.add]. exact IHr.
Qed.

(** every reported note is [k-1], [k], or the least allowed note above [k] *)
Lemma near_notes_lower : forall k vs q,
  valid_mask (q_allowed q) -> cached_ok (q_cached q) -> 1 <= k <= 120 ->
  note_allowed (q_allowed q) (k - 1) = true ->
  (forall x, In x vs -> near k x) ->
  forall n, In n (convert_seq q vs) ->
    (n = k - 1 \/ n = k) \/
    (k + 1 <= n <= 131 /\ note_allowed (q_allowed q) n = true /\
     forall N, k + 1 <= N <= 131 -> note_allowed (q_allowed q) N = true -> n <= N).
Proof.
  intros k vs. induction vs as [|x rest IH]; intros q Ha Hc Hk Hal Hvs n Hin.
  - destruct Hin.
  - cbn [convert_seq] in Hin. destruct (convert q x) as [q' c'] eqn:E.
    assert (E1 : q' = fst (convert q x)) by (rewrite E; reflexivity).
    assert (E2 : c' = snd (convert q x)) by (rewrite E; reflexivity).
    assert (Hx : near k x) by (apply Hvs; left; reflexivity).
    destruct (convert_state q x Ha Hc) as [Ha' [Hc' [Hm [_ [_ Haln]]]]].
    cbv zeta in Ha', Hc', Hm, Haln. rewrite <- E1 in Ha', Hc', Hm. rewrite <- E2 in Haln.
    destruct Hin as [Hin|Hin].
    + subst n.
      destruct (convert_cases q x) as [_ [_ [[K [Hn Hs]]|[K [Hn Hs]]]]]; rewrite <- E2 in Hn.
      * left. destruct (keeps_cached q x Hc K) as [HN [Hst [_ _]]]. cbv zeta in HN, Hst.
        apply keeps_window in K. destruct K as [_ W].
        rewrite Hn. exact (near_window_inv k x _ _ Hk Hx HN Hst W).
      * pose proof (near_search_lower (q_allowed q) k x Ha Hk Hx Hal) as Hge.
        pose proof (fnn_range (q_allowed q) x Ha) as Hr.
        rewrite <- Hn in Hge, Hr.
        destruct (Z_le_gt_dec (c_note c') k) as [Hle|Hgt]; [left; lia|right].
        split; [lia|]. split; [exact Haln|].
        intros N HN HalN. rewrite Hn.
        apply (near_search_above (q_allowed q) k x N Ha Hk Hx); [rewrite <- Hn; lia|exact HN|exact HalN].
    + rewrite <- Hm.
      apply (IH q' Ha' Hc' Hk); [rewrite Hm; exact Hal| |exact Hin].
      intros y Hy. apply Hvs. right. exact Hy.
Qed.

(** ANY scale in which the note [k-1] below the boundary is allowed: the note sequence
    changes at most once (it can move from the next allowed note above down to [k-1], see
    [noise_sparse_scale]; then it stays) *)
Theorem noise_lower_allowed_gen : forall q k vs,
  valid_mask (q_allowed q) -> cached_ok (q_cached q) -> 1 <= k <= 120 ->
  note_allowed (q_allowed q) (k - 1) = true ->
  (forall x, In x vs -> fin x /\ (Rabs (R32 x - IZR k / 12) <= R32 HYST - / 262144)%R) ->
  (changes (convert_seq q vs) <= 1)%nat.
Proof.
  intros q k vs Ha Hc Hk Hal Hvs.
  assert (Hnear : forall x, In x vs -> near k x).
  { intros x Hx. apply near_iff. apply Hvs. exact Hx. }
  apply (changes_le_1 (fun m => m = k - 1 \/ m = k)).
  - intros n. destruct (Z.eq_dec n (k - 1)) as [H1|H1]; [left; left; exact H1|].
    destruct (Z.eq_dec n k) as [H2|H2]; [left; right; exact H2|].
    right. intros [H|H]; contradiction.
  - intros n m Hn Hm NSn NSm.
    destruct (near_notes_lower k vs q Ha Hc Hk Hal Hnear n Hn) as [H|[Rn [An Mn]]]; [contradiction|].
    destruct (near_notes_lower k vs q Ha Hc Hk Hal Hnear m Hm) as [H|[Rm [Am Mm]]]; [contradiction|].
    pose proof (Mn m Rm Am). pose proof (Mm n Rn An). lia.
  - apply sticky_gen; [exact Ha|exact Hc|].
    intros n x Hn Hx. exact (near_both_windows k x n Hk (Hnear x Hx) Hn).
Qed.

Theorem noise_lower_allowed : forall ops k vs, wf_ops ops -> 1 <= k <= 120 ->
  note_allowed (q_allowed (qrun ops)) (k - 1) = true ->
  (forall x, In x vs -> fin x /\ (Rabs (R32 x - IZR k / 12) <= R32 HYST - / 262144)%R) ->
  (changes (convert_seq (qrun ops) vs) <= 1)%nat.
Proof.
  intros ops k vs Hwf Hk Hal Hvs.
  exact (noise_lower_allowed_gen (qrun ops) k vs (mask_invariant ops Hwf)
           (cached_invariant ops Hwf) Hk Hal Hvs).
Qed.

(** both notes around the boundary allowed ("adjacent allowed semitones"): special case *)
Corollary noise_adjacent_allowed : forall ops k v vs, wf_ops ops -> 1 <= k <= 120 ->
  note_allowed (q_allowed (qrun ops)) (k - 1) = true ->
  note_allowed (q_allowed (qrun ops)) k = true ->
  (forall x, In x (v :: vs) -> fin x /\ (Rabs (R32 x - IZR k / 12) <= R32 HYST - / 262144)%R) ->
  forall n, In n (convert_seq (qrun ops) (v :: vs)) ->
            n = hd 0 (convert_seq (qrun ops) (v :: vs)).
Proof. intros ops k v vs Hwf Hk _ Hal. exact (noise_upper_allowed ops k v vs Hwf Hk Hal). Qed.

(** ** what does not hold *)

Definition v_0_0834 : f32 := of_bits 1034603935.   (* 0.0834 *)
Definition v_0_0832 : f32 := of_bits 1034577091.   (* 0.0832 *)
Definition v_0_1666 : f32 := of_bits 1042979121.   (* 0.1666 *)
Definition v_0_1668 : f32 := of_bits 1042992543.   (* 0.1668 *)

(** scale {C, D} (reviewer's data point), boundary 1/12 V: only the lower note of the
    boundary is allowed; the premises of [C09_noise_one_change] other than the chromatic
    scale hold, the notes are [2; 0; 0]: one change, so "all notes equal the first" is
    false here, while [noise_lower_allowed] (at most one change) applies *)
Example noise_sparse_scale :
  let ops := [QForbid [1; 3; 4; 5; 6; 7; 8; 9; 10; 11]] in
  let vs := [v_0_0834; v_0_0832; v_0_0834] in
  wf_ops ops /\ q_allowed (qrun ops) = 5 /\
  note_allowed 5 0 = true /\ note_allowed 5 1 = false /\ note_allowed 5 2 = true /\
  (forall x, In x vs -> fin x /\ (Rabs (R32 x - IZR 1 / 12) <= R32 HYST - / 262144)%R) /\
  convert_seq (qrun ops) vs = [2; 0; 0] /\
  convert_seq (mkQuant conv_new 5) vs = [2; 0; 0] /\
  changes (convert_seq (qrun ops) vs) = 1%nat.
Proof.
  cbv zeta. split.
  { unfold wf_ops. constructor; [|constructor]. cbn [wf_op]. unfold u8_notes.
    repeat constructor; lia. }
  split; [vm_compute; reflexivity|].
  split; [vm_compute; reflexivity|]. split; [vm_compute; reflexivity|].
  split; [vm_compute; reflexivity|]. split.
  { intros x Hx. cbn [In] in Hx. destruct Hx as [<-|[<-|[<-|[]]]].
    - near_const v_0_0834.
    - near_const v_0_0832.
    - near_const v_0_0834. }
  vm_compute. repeat split; reflexivity.
Qed.

(** scale {C, E}, boundary 2/12 V (neither note of the boundary allowed, the two allowed
    neighbours are equally far): noise of 0.1 mV makes the note alternate for ever -- the
    hysteresis window of C ends at 1/12 + 1/120 V, long before the decision point of the
    search.  So no scale-generic bound on the number of changes exists. *)
Example noise_gap_scale :
  let ops := [QForbid [1; 2; 3; 5; 6; 7; 8; 9; 10; 11]] in
  let vs := [v_0_1666; v_0_1668; v_0_1666; v_0_1668; v_0_1666; v_0_1668] in
  wf_ops ops /\ q_allowed (qrun ops) = 17 /\
  (forall x, In x vs -> fin x /\ (Rabs (R32 x - IZR 2 / 12) <= R32 HYST - / 262144)%R) /\
  convert_seq (qrun ops) vs = [0; 4; 0; 4; 0; 4] /\
  changes (convert_seq (qrun ops) vs) = 5%nat.
Proof.
  cbv zeta. split.
  { unfold wf_ops. constructor; [|constructor]. cbn [wf_op]. unfold u8_notes.
    repeat constructor; lia. }
  split; [vm_compute; reflexivity|]. split.
  { intros x Hx. cbn [In] in Hx. destruct Hx as [<-|[<-|[<-|[<-|[<-|[<-|[]]]]]]].
    - near_const v_0_1666.
    - near_const v_0_1668.
    - near_const v_0_1666.
    - near_const v_0_1668.
    - near_const v_0_1666.
    - near_const v_0_1668. }
  vm_compute. split; reflexivity.
Qed.

(** the same for every length: [n] pairs of inputs give [2 n - 1] changes *)
Fixpoint alt_in (n : nat) : list f32 :=
  match n with O => [] | S m => v_0_1666 :: v_0_1668 :: alt_in m end.
Fixpoint alt_out (n : nat) : list Z :=
  match n with O => [] | S m => 0 :: 4 :: alt_out m end.

Definition gap_inv (q : quant) : Prop :=
  q_allowed q = 17 /\
  (q_cached q = conv_new \/
   (c_note (q_cached q) = 4 /\ c_stair (q_cached q) = stair_of 4)).

Lemma gap_step_lo : forall q, gap_inv q ->
  c_note (snd (convert q v_0_1666)) = 0 /\
  q_allowed (fst (convert q v_0_1666)) = 17 /\
  c_note (q_cached (fst (convert q v_0_1666))) = 0 /\
  c_stair (q_cached (fst (convert q v_0_1666))) = stair_of 0.
Proof.
  intros q [Hm Hc].
  assert (K : keeps q v_0_1666 = false).
  { destruct Hc as [Hc|[Hn Hs]].
    - unfold keeps. rewrite Hc, in_window_fresh. apply andb_false_r.
    - rewrite (keeps_ext q (mkQuant (mkConv 4 (stair_of 4) f_0) 17) v_0_1666 Hm Hn Hs).
      vm_compute. reflexivity. }
  destruct (memoryless_spec q v_0_1666 K) as [M1 [M2 M3]]. rewrite Hm in M1, M3.
  assert (N0 : c_note (snd (convert (mkQuant conv_new 17) v_0_1666)) = 0)
    by (vm_compute; reflexivity).
  assert (S0 : c_stair (snd (convert (mkQuant conv_new 17) v_0_1666)) = stair_of 0)
    by (vm_compute; reflexivity).
  rewrite M2, M1. auto.
Qed.

Lemma gap_step_hi : forall q, q_allowed q = 17 -> c_note (q_cached q) = 0 ->
  c_stair (q_cached q) = stair_of 0 ->
  c_note (snd (convert q v_0_1668)) = 4 /\ gap_inv (fst (convert q v_0_1668)).
Proof.
  intros q Hm Hn Hs.
  assert (K : keeps q v_0_1668 = false).
  { rewrite (keeps_ext q (mkQuant (mkConv 0 (stair_of 0) f_0) 17) v_0_1668 Hm Hn Hs).
    vm_compute. reflexivity. }
  destruct (memoryless_spec q v_0_1668 K) as [M1 [M2 M3]]. rewrite Hm in M1, M3.
  assert (N4 : c_note (snd (convert (mkQuant conv_new 17) v_0_1668)) = 4)
    by (vm_compute; reflexivity).
  destruct (convert_cases (mkQuant conv_new 17) v_0_1668) as [_ [_ [[K' _]|[_ [_ S4]]]]].
  { unfold keeps in K'. cbn [q_cached] in K'. rewrite in_window_fresh, andb_false_r in K'.
    discriminate K'. }
  rewrite N4 in S4.
  split; [rewrite M1; exact N4|]. split; [exact M3|]. right. rewrite M2, M1. auto.
Qed.

Lemma gap_alternates : forall n q, gap_inv q -> convert_seq q (alt_in n) = alt_out n.
Proof.
  induction n as [|n IH]; intros q Hq; [reflexivity|].
  cbn [alt_in alt_out convert_seq].
  destruct (gap_step_lo q Hq) as [L1 [L2 [L3 L4]]].
  destruct (convert q v_0_1666) as [q1 c1] eqn:E1. cbn [fst snd] in L1, L2, L3, L4.
  destruct (gap_step_hi q1 L2 L3 L4) as [H1 H2].
  destruct (convert q1 v_0_1668) as [q2 c2] eqn:E2. cbn [fst snd] in H1, H2.
  rewrite L1, H1, (IH q2 H2). reflexivity.
Qed.

Lemma changes_alt_out : forall n, changes (alt_out (S n)) = (2 * n + 1)%nat.
Proof.
  induction n as [|n IH]; [reflexivity|].
  change (alt_out (S (S n))) with (0 :: 4 :: alt_out (S n)).
  change (alt_out (S n)) with (0 :: 4 :: alt_out n) in *.
  cbn [changes Z.eqb] in *. lia.
Qed.

Theorem noise_gap_scale_unbounded : forall n,
  let ops := [QForbid [1; 2; 3; 5; 6; 7; 8; 9; 10; 11]] in
  wf_ops ops /\ q_allowed (qrun ops) = 17 /\
  (forall x, In x (alt_in (S n)) ->
     fin x /\ (Rabs (R32 x - IZR 2 / 12) <= R32 HYST - / 262144)%R) /\
  convert_seq (qrun ops) (alt_in (S n)) = alt_out (S n) /\
  changes (convert_seq (qrun ops) (alt_in (S n))) = (2 * n + 1)%nat.
Proof.
  intros n. cbv zeta.
  assert (Hq : gap_inv (qrun [QForbid [1; 2; 3; 5; 6; 7; 8; 9; 10; 11]])).
  { split; [vm_compute; reflexivity|]. left. reflexivity. }
  split.
  { unfold wf_ops. constructor; [|constructor]. cbn [wf_op]. unfold u8_notes.
    repeat constructor; lia. }
  split; [exact (proj1 Hq)|]. split.
  { intros x Hx.
    assert (Hx' : x = v_0_1666 \/ x = v_0_1668).
    { revert Hx. generalize (S n). intros k. induction k as [|k IHk]; cbn [alt_in In].
      - intros [].
      - intros [<-|[<-|H]]; [left; reflexivity|right; reflexivity|exact (IHk H)]. }
    destruct Hx' as [->| ->].
    - near_const v_0_1666.
    - near_const v_0_1668. }
  rewrite (gap_alternates (S n) _ Hq). split; [reflexivity|apply changes_alt_out].
Qed.

(** * 4. Converting the same input twice *)

(** from every state with a valid scale and a sane cached record, for every f32 input:
    the second conversion of the same input returns the same record and leaves the
    state unchanged *)
Theorem convert_idem_gen : forall q v,
  valid_mask (q_allowed q) -> cached_ok (q_cached q) ->
  convert (fst (convert q v)) v = convert q v.
Proof.
  intros q v Ha Hc.
  destruct (convert_shape q v Ha Hc) as [N [HN [E1 [E2 _]]]].
  destruct (convert_state q v Ha Hc) as [Ha' [Hc' [Hm [Hq _]]]].
  cbv zeta in Ha', Hc', Hm, Hq.
  set (q' := fst (convert q v)) in *.
  destruct (convert_shape q' v Ha' Hc') as [N' [HN' [E1' [E2' [_ K2']]]]].
  assert (EN : N' = N).
  { destruct (keeps q' v) eqn:K.
    - destruct (keep_spec q' v K) as [K1 _]. cbv zeta in K1.
      rewrite E1', Hq, E1 in K1. cbn [c_note] in K1. exact K1.
    - rewrite (K2' eq_refl).
      destruct (justified_after q v) as [J|J]; fold q' in J.
      + rewrite J in K. discriminate K.
      + rewrite <- J, Hq, E1. reflexivity. }
  subst N'.
  rewrite (surjective_pairing (convert q' v)), (surjective_pairing (convert q v)).
  fold q'. rewrite E2', E1', Hm. rewrite <- E1, <- E2. reflexivity.
Qed.

Theorem convert_idem : forall ops v, wf_ops ops ->
  let q := qrun ops in
  snd (convert (fst (convert q v)) v) = snd (convert q v) /\
  fst (convert (fst (convert q v)) v) = fst (convert q v).
Proof.
  intros ops v Hwf q.
  rewrite (convert_idem_gen q v (mask_invariant ops Hwf) (cached_invariant ops Hwf)).
  split; reflexivity.
Qed.

(** consequently repeating an input any number of times repeats the note *)
Corollary convert_repeat : forall ops v n, wf_ops ops ->
  forall m, In m (convert_seq (qrun ops) (repeat v (S n))) ->
            m = c_note (snd (convert (qrun ops) v)).
Proof.
  intros ops v n Hwf.
  pose proof (mask_invariant ops Hwf) as Ha. pose proof (cached_invariant ops Hwf) as Hc.
  generalize dependent (qrun ops). induction n as [|n IH]; intros q Ha Hc m Hin.
  - cbn [repeat convert_seq] in Hin. destruct (convert q v) as [q' c'].
    cbn [snd]. destruct Hin as [<-|[]]. reflexivity.
  - change (repeat v (S (S n))) with (v :: repeat v (S n)) in Hin.
    cbn [convert_seq] in Hin.
    pose proof (convert_idem_gen q v Ha Hc) as Hid.
    destruct (convert_state q v Ha Hc) as [Ha' [Hc' _]]. cbv zeta in Ha', Hc'.
    destruct (convert q v) as [q' c'] eqn:E. cbn [fst snd] in *.
    destruct Hin as [<-|Hin]; [reflexivity|].
    rewrite (IH q' Ha' Hc' m Hin), Hid. reflexivity.
Qed.
