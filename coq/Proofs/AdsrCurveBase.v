(** * AdsrCurveBase: statement of the per-cell curve bounds behind [curve_fidelity]
    (Props/C01.v) and the tactics that prove them with [interval].

    A "cell" is one segment [i/1024, (i+1)/1024] of the phase position.  Inside cell [i]
    the envelope code interpolates linearly between table entries [i] and
    [next_idx i = min (i+1) 1023]; [cell t RC i] says that this (exact, real-valued)
    interpolation stays within 0.0045 of the documented curve [RC] on the whole cell.

    The table entries are never copied into the proof scripts: the tactics read them out
    of gen/Tables.v by computation, so the bounds are re-checked against whatever that
    (generated) file contains. *)

From Coq Require Import ZArith Reals Lia Lra List Floats.SpecFloat.
From Flocq Require Import Core IEEE754.BinarySingleNaN.
From Interval Require Import Tactic.
From SU Require Import F32 F32Lemmas.
From SU.gen Require Import Consts Tables.
From SU.Model Require Import Utils PhaseAcc Tables Adsr.
From SU.Spec Require Import AdsrSpec.
Open Scope R_scope.

(** the bound proved for every cell *)
Definition CELL_TOL : R := 45 / 10000.

Definition cell (t : list f32) (RC : R -> R) (i : Z) : Prop :=
  forall x : R, IZR i / 1024 <= x <= (IZR i + 1) / 1024 ->
  Rabs (R32 (tbl t i) + (R32 (tbl t (next_idx i)) - R32 (tbl t i)) * (1024 * x - IZR i)
        - RC x) <= CELL_TOL.

(** [n] consecutive cells starting at [lo] *)
Fixpoint cells (P : Z -> Prop) (lo : Z) (n : nat) : Prop :=
  match n with
  | O => True
  | S n' => P lo /\ cells P (lo + 1)%Z n'
  end.

Lemma cells_spec : forall P n lo, cells P lo n ->
  forall i : Z, (lo <= i < lo + Z.of_nat n)%Z -> P i.
Proof.
  intros P n. induction n as [|n IH]; intros lo H i Hi.
  - simpl in Hi. lia.
  - destruct H as [H0 H1].
    destruct (Z.eq_dec i lo) as [->|Hne]; [exact H0|].
    apply (IH (lo + 1)%Z H1). lia.
Qed.

(** ** reading table entries *)

Lemma tbl_bits : forall (l : list Z) (i : Z),
  tbl (map of_bits l) i = of_bits (nth (Z.to_nat i) l 0%Z).
Proof. intros l i. unfold tbl. exact (map_nth of_bits l 0%Z (Z.to_nat i)). Qed.

Lemma entry_finite : forall (l : list Z) (i : Z) s m e,
  B2SF (of_bits (nth (Z.to_nat i) l 0%Z)) = S754_finite s m e ->
  R32 (tbl (map of_bits l) i) = IZR (cond_Zopp s (Zpos m)) * bpow radix2 e.
Proof. intros l i s m e H. rewrite tbl_bits. now apply R32_of_SF. Qed.

Lemma entry_zero : forall (l : list Z) (i : Z) s,
  B2SF (of_bits (nth (Z.to_nat i) l 0%Z)) = S754_zero s ->
  R32 (tbl (map of_bits l) i) = 0.
Proof.
  intros l i s H. rewrite tbl_bits.
  destruct (of_bits (nth (Z.to_nat i) l 0%Z)); simpl in H; try discriminate. reflexivity.
Qed.

(** [entry_const bits i]: rewrites [R32 (tbl (map of_bits bits) i)] (for a literal [i]) in
    the goal into [IZR m * / IZR 2^k] / [IZR m * IZR 2^k] / [0] with literal numbers *)
Ltac entry_const bits i :=
  let sf := eval vm_compute in (B2SF (of_bits (nth (Z.to_nat i) bits 0%Z))) in
  lazymatch sf with
  | S754_finite ?s ?m ?e =>
      rewrite (entry_finite bits i s m e ltac:(vm_cast_no_check (eq_refl sf)));
      cbn [cond_Zopp Z.opp];
      let neg := eval vm_compute in (e <? 0)%Z in
      lazymatch neg with
      | true =>
          let k := eval vm_compute in (- e)%Z in
          let p := eval vm_compute in (2 ^ k)%Z in
          replace (bpow radix2 e) with (/ IZR p)
            by (symmetry; exact (bpow2_neg k ltac:(reflexivity)))
      | false =>
          let p := eval vm_compute in (2 ^ e)%Z in
          replace (bpow radix2 e) with (IZR p)
            by (symmetry; exact (bpow2_pos e ltac:(discriminate)))
      end
  | S754_zero ?s =>
      rewrite (entry_zero bits i s ltac:(vm_cast_no_check (eq_refl sf)))
  end.

(** [solve_cell]: proves [cell (map of_bits bits) RC i] for a literal [i]; [RC] must be
    [RC_attack] or [RC_decay] *)
Ltac solve_cell :=
  lazymatch goal with
  | |- cell (map of_bits ?bits) ?RC ?i =>
      let j := eval vm_compute in (next_idx i) in
      let x := fresh "x" in
      let Hx := fresh "Hx" in
      unfold cell, CELL_TOL; intros x Hx;
      change (next_idx i) with j;
      entry_const bits i;
      try entry_const bits j;
      unfold RC_attack, RC_decay;
      interval with (i_taylor x, i_prec 40)
  end.

(** [solve_cells]: proves [cells (cell (map of_bits bits) RC) lo n] for literal [lo], [n] *)
Ltac solve_cells :=
  lazymatch goal with
  | |- cells _ _ O => exact I
  | |- cells ?P ?lo (S ?n) =>
      let lo1 := eval vm_compute in (lo + 1)%Z in
      change (P lo /\ cells P lo1 n);
      split; [ solve_cell | solve_cells ]
  end.

Definition attack_cell : Z -> Prop := cell (map of_bits ADSR_ATTACK_TABLE_bits) RC_attack.
Definition decay_cell : Z -> Prop := cell (map of_bits ADSR_DECAY_TABLE_bits) RC_decay.

Lemma attack_cell_eq : forall i, attack_cell i = cell attack_table RC_attack i.
Proof. reflexivity. Qed.
Lemma decay_cell_eq : forall i, decay_cell i = cell decay_table RC_decay i.
Proof. reflexivity. Qed.
