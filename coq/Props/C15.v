(** C15 — Ribbon: a press is reported only after an uninterrupted capture time.
    Only the property theorems; proofs are in Proofs/RibbonProofs.v. *)
From Coq Require Import ZArith Bool List.
Import ListNotations.
From SU Require Import F32.
From SU.Model Require Import Ribbon.
From SU.Spec Require Import RibbonSpec.
From SU.Proofs Require Import RibbonProofs.
From SU.Proofs Require Import RibbonExtraProofs.
From SU.Proofs Require Import RibbonKillers.
From SU.Proofs Require Import GlideRibbonKillers2.
Open Scope Z_scope.

(** [finger_is_pressing()] after any sample history is true exactly when the current
    unbroken run of in-range samples is at least (settling samples skipped) + (capacity)
    long; for every capacity >= 1 and every configuration *)
Theorem C15_press_spec : forall cap fs sp dr pu samples,
  (0 < cap)%nat ->
  let r0 := ribbon_new cap fs sp dr pu in
  rb_pressing (polls r0 samples)
  = (skip (rb_ignore r0) + Z.of_nat cap <=? run_len (in_range r0) samples).
Proof. exact press_spec. Qed.

(** consequences spelled out: false right after an out-of-range sample ... *)
Theorem C15_release_immediately : forall cap fs sp dr pu samples x,
  (0 < cap)%nat ->
  let r0 := ribbon_new cap fs sp dr pu in
  in_range r0 x = false ->
  rb_pressing (polls r0 (samples ++ [x])) = false.
Proof. exact release_immediately. Qed.

(** ... and in-range samples separated by an out-of-range sample never add up *)
Theorem C15_taps_do_not_add_up : forall cap fs sp dr pu before x after,
  (0 < cap)%nat ->
  let r0 := ribbon_new cap fs sp dr pu in
  in_range r0 x = false ->
  Z.of_nat (length after) < skip (rb_ignore r0) + Z.of_nat cap ->
  rb_pressing (polls r0 (before ++ x :: after)) = false.
Proof. exact taps_do_not_add_up. Qed.

(** edge latches: a poll of finger_just_pressed()/finger_just_released() returns true iff
    finger_is_pressing() changed false->true / true->false at least once since the
    previous poll of that flag (or since the start) *)
Theorem C15_just_pressed : forall cap fs sp dr pu h,
  (0 < cap)%nat ->
  let r0 := ribbon_new cap fs sp dr pu in
  let is_jp := fun o => match o with RJustPressed => true | _ => false end in
  let tail := since_last is_jp h [] in
  let before := firstn (length h - length tail) h in
  snd (rstep (rrun r0 h) RJustPressed) = Some (changed false (rrun r0 before) tail).
Proof. exact just_pressed_spec. Qed.

Theorem C15_just_released : forall cap fs sp dr pu h,
  (0 < cap)%nat ->
  let r0 := ribbon_new cap fs sp dr pu in
  let is_jr := fun o => match o with RJustReleased => true | _ => false end in
  let tail := since_last is_jr h [] in
  let before := firstn (length h - length tail) h in
  snd (rstep (rrun r0 h) RJustReleased) = Some (changed true (rrun r0 before) tail).
Proof. exact just_released_spec. Qed.

(** edge polls at any position change nothing but their own latch: every other field after a history equals that after its samples alone *)
Open Scope R_scope.
Theorem C15_edge_polls_transparent : forall (r0 : ribbon) (h : list rop),
  let r := rrun r0 h in
  let r' := polls r0 (samples_of h) in
  rb_pressing r = rb_pressing r' /\ rb_val r = rb_val r' /\
  ribbon_value r = ribbon_value r' /\ rb_buf r = rb_buf r' /\
  rb_received r = rb_received r' /\ rb_written r = rb_written r' /\
  rb_cap r = rb_cap r' /\ rb_boundary r = rb_boundary r' /\ rb_err r = rb_err r' /\
  rb_ignore r = rb_ignore r' /\ rb_discard r = rb_discard r'.
Proof. exact edge_polls_transparent. Qed.
Close Scope R_scope.

(** hence the press rule over arbitrary histories *)
Open Scope R_scope.
Theorem C15_press_spec_hist : forall cap fs sp dr pu (h : list rop),
  (0 < cap)%nat ->
  let r0 := ribbon_new cap fs sp dr pu in
  rb_pressing (rrun r0 h)
  = (skip (rb_ignore r0) + Z.of_nat cap <=? run_len (in_range r0) (samples_of h))%Z.
Proof. exact C15_press_spec_hist. Qed.
Close Scope R_scope.

(** the settling and finger-lift sample counts the constructor stores, in closed form: 1 ms and 2 ms of samples (the press rule above is stated through whatever the constructor stored, so a constructor with other times satisfied it) *)
Theorem C15_ribbon_new_times : forall cap fs sp dr pu,
  let r0 := ribbon_new cap fs sp dr pu in
  rb_ignore r0 = (to_u32 fs * 1000) / 1000000 /\
  rb_discard r0 = (to_u32 fs * 2000) / 1000000.
Proof. exact ribbon_new_times. Qed.

(** the helper's capacity in closed form: 15 ms + 2 ms of samples + 1 *)
Theorem C15_capacity_value : forall fs : Z,
  sample_rate_to_capacity fs = (fs * 15000) / 1000000 + (fs * 2000) / 1000000 + 1.
Proof. exact capacity_value. Qed.

(** the press rule with every count spelled out, for every supported rate and helper-sized buffer *)
Theorem C15_press_after_capture_time : forall (fs : Z) sp dr pu samples,
  100 <= fs <= 192000 ->
  let cap := Z.to_nat (sample_rate_to_capacity fs) in
  let r0 := ribbon_new cap (of_Z fs) sp dr pu in
  rb_pressing (polls r0 samples)
  = (Z.max (fs / 1000 - 1) 0 + (fs * 15 / 1000 + fs / 500 + 1)
     <=? run_len (in_range r0) samples).
Proof. exact press_after_capture_time. Qed.

(** the same over histories with edge polls *)
Theorem C15_press_after_capture_time_hist : forall (fs : Z) sp dr pu (h : list rop),
  100 <= fs <= 192000 ->
  let cap := Z.to_nat (sample_rate_to_capacity fs) in
  let r0 := ribbon_new cap (of_Z fs) sp dr pu in
  rb_pressing (rrun r0 h)
  = (Z.max (fs / 1000 - 1) 0 + (fs * 15 / 1000 + fs / 500 + 1)
     <=? run_len (in_range r0) (samples_of h)).
Proof. exact press_after_capture_time_hist. Qed.

(** at 10 kHz: on the 180th sample of an unbroken in-range run *)
Theorem C15_press_10kHz : forall sp dr pu samples,
  let r0 := ribbon_new (Z.to_nat (sample_rate_to_capacity 10000)) (of_Z 10000) sp dr pu in
  rb_pressing (polls r0 samples) = (180 <=? run_len (in_range r0) samples).
Proof. exact press_10kHz. Qed.

(** the dispatcher of the model (the function the correspondence check runs and C17 folds over) does what the three operations say *)
Theorem C15_model_step_spec : forall r x,
  ribbon_step r (RbPoll x) = (ribbon_poll r x, None) /\
  ribbon_step r RbJustPressed
  = (snd (ribbon_just_pressed r), Some (fst (ribbon_just_pressed r))) /\
  ribbon_step r RbJustReleased
  = (snd (ribbon_just_released r), Some (fst (ribbon_just_released r))) /\
  fst (ribbon_just_pressed r) = rb_just_pressed r /\
  fst (ribbon_just_released r) = rb_just_released r /\
  rb_just_pressed (snd (ribbon_just_pressed r)) = false /\
  rb_just_released (snd (ribbon_just_pressed r)) = rb_just_released r /\
  rb_just_released (snd (ribbon_just_released r)) = false /\
  rb_just_pressed (snd (ribbon_just_released r)) = rb_just_pressed r.
Proof. exact model_step_spec. Qed.

(** and is the dispatcher the C15/C16 statements are written with *)
Theorem C15_model_step_is_rstep : forall r o, ribbon_step r o = rstep r (rop_of o).
Proof. exact model_step_is_rstep. Qed.

(** so are the two run functions *)
Theorem C15_model_run_is_rrun : forall h r0,
  fold_left (fun r o => fst (ribbon_step r o)) h r0 = rrun r0 (map rop_of h) /\
  samples_of (map rop_of h) = samples_of_ops h.
Proof. exact model_run_is_rrun. Qed.

(** the press rule, the value window and both edge latches, stated directly on runs of the model's own step function *)
Theorem C15_model_ribbon_rules : forall cap fs sp dr pu (h : list ribbon_op) x,
  (0 < cap)%nat ->
  let r0 := ribbon_new cap fs sp dr pu in
  let r := fold_left (fun r o => fst (ribbon_step r o)) h r0 in
  let hs := map rop_of h in
  let tail_jp := since_last is_jp hs [] in
  let tail_jr := since_last is_jr hs [] in
  rb_pressing r
  = (skip (rb_ignore r0) + Z.of_nat cap <=? run_len (in_range r0) (samples_of_ops h)) /\
  (rb_pressing r = true -> rb_val r = window_value r0 (window r0 (samples_of_ops h))) /\
  ribbon_value r = ribbon_value (polls r0 (samples_of_ops h)) /\
  snd (ribbon_step r (RbPoll x)) = None /\
  snd (ribbon_step r RbJustPressed)
  = Some (changed false (rrun r0 (firstn (length hs - length tail_jp) hs)) tail_jp) /\
  snd (ribbon_step r RbJustReleased)
  = Some (changed true (rrun r0 (firstn (length hs - length tail_jr) hs)) tail_jr).
Proof. exact model_ribbon_rules. Qed.

Print Assumptions C15_press_spec.
Print Assumptions C15_release_immediately.
Print Assumptions C15_taps_do_not_add_up.
Print Assumptions C15_just_pressed.
Print Assumptions C15_just_released.
Print Assumptions C15_edge_polls_transparent.
Print Assumptions C15_press_spec_hist.
Print Assumptions C15_ribbon_new_times.
Print Assumptions C15_capacity_value.
Print Assumptions C15_press_after_capture_time.
Print Assumptions C15_press_after_capture_time_hist.
Print Assumptions C15_press_10kHz.
Print Assumptions C15_model_step_spec.
Print Assumptions C15_model_step_is_rstep.
Print Assumptions C15_model_run_is_rrun.
Print Assumptions C15_model_ribbon_rules.
