(** C13 — Glide never overshoots or rings and always converges to a steady input.
    Only the property theorems; proofs are in Proofs/GlideCoeffProofs.v (which coefficient
    sets can be installed; uses Proofs/TanfProofs.v) and Proofs/GlideFilterProofs.v (the
    filter recurrence in f32). *)
From Coq Require Import ZArith Bool List Reals.
Import ListNotations.
From Flocq Require Import Core.
From SU Require Import F32 F32Lemmas.
From SU.Model Require Import Glide.
From SU.Spec Require Import GlideSpec.
From SU.Proofs Require Import GlideCoeffProofs GlideFilterProofs.
From SU.Spec Require Import RunSpec.
From SU.Proofs Require Import GlideExtraProofs.
From SU.Proofs Require Import GlideKillers.
From SU.Proofs Require Import GlideTraceProofs.
Open Scope R_scope.

(** for every sample rate in [100 Hz, 48 kHz] and every schedule of set_time calls with
    times in [0, 10] s (0 = glide off included) mixed with process calls: nothing panics and
    every coefficient set in force is well behaved (pole in [-2^-22, 1), unit DC gain), with
    speed 1 - p at least 0.6 / fs (the slowest setting) *)
Theorem C13_coeffs_good : forall fs ops, glide_fs_ok fs -> Forall op_time_ok ops ->
  exists g0, glide_new fs = Some g0 /\
    (exists g, glide_after g0 ops = Some g) /\
    Forall (fun c => good c /\ 0.6 / R32 fs <= speed c) (coeffs_used g0 ops).
Proof. exact coeffs_good. Qed.

(** one sample of the filter with a well-behaved coefficient set, in f32: the output is the
    exact recurrence  y = (1-p)/2 (x + x1) + p y1  up to 16 * 2^-24 of the signal bound B.
    B is any bound on the magnitudes involved that is not vanishingly small (>= 2^-100):
    for signals in the subnormal range the products underflow and the relative statement
    is false (Proofs/GlideFilterProofs.v: one_step_unbounded_false) *)
Theorem C13_one_step : forall d x B,
  good (d_c d) -> df1_bounded d B -> fin x -> Rabs (R32 x) <= B ->
  bpow radix2 (-100) <= B -> B <= bpow radix2 100 ->
  let '(d', y) := df1_run d x in
  let p := pole (d_c d) in
  fin y /\ df1_fin d' /\ d_c d' = d_c d /\
  Rabs (R32 y - ((1 - p) / 2 * (R32 x + R32 (d_x1 d)) + p * R32 (d_y1 d))) <= 16 * / 16777216 * B.
Proof. exact one_step_partial. Qed.

(** the output never leaves the range spanned by its initial value 0 and the inputs seen so
    far, up to the f32 resolution of the filter: resolution kappa = 16 * 2^-24 / kappa
    relative to the signal range, kappa the slowest speed among the coefficient sets used.
    Magnitude: kappa >= 0.6/fs always (C13_coeffs_good), so the tolerance is at most 1.6e-6 * fs of
    the largest input magnitude: 0.016% at 100 Hz, 7.6% at 48 kHz when a 10 s glide was used
    (the stall band of a slow one-pole filter in f32; sharper per-setting bounds: C13_trace_settles) *)
Theorem C13_hull : forall fs g0 ops lo hi kappa ys,
  glide_new fs = Some g0 ->
  Forall (fun c => good c /\ kappa <= speed c) (coeffs_used g0 ops) ->
  / 100000 <= kappa -> lo <= 0 <= hi ->
  (Rmax (- lo) hi = 0 \/ bpow radix2 (-100) <= Rmax (- lo) hi) ->
  Rmax (- lo) hi <= bpow radix2 64 ->
  Forall (op_input_in lo hi) ops ->
  glide_outputs g0 ops = Some ys ->
  Forall (fun y => fin y /\
            lo - resolution kappa * Rmax (- lo) hi <= R32 y <= hi + resolution kappa * Rmax (- lo) hi) ys.
Proof. exact hull_partial0. Qed.

(** an input held constant (x1 = x already): the distance to the target shrinks by the factor
    p at every sample, keeps its sign (no oscillation around the target) and so converges
    monotonically -- all up to the resolution *)
Theorem C13_approach : forall d x B,
  good (d_c d) -> df1_bounded d B -> fin x -> Rabs (R32 x) <= B ->
  bpow radix2 (-100) <= B -> B <= bpow radix2 100 ->
  d_x1 d = x ->
  let '(_, y) := df1_run d x in
  Rabs ((R32 y - R32 x) - pole (d_c d) * (R32 (d_y1 d) - R32 x)) <= 20 * / 16777216 * B.
Proof. exact approach_partial. Qed.

Theorem C13_settles : forall d x B n kappa,
  good (d_c d) -> kappa <= speed (d_c d) -> / 100000 <= kappa ->
  df1_bounded d B -> fin x -> Rabs (R32 x) <= B ->
  bpow radix2 (-100) <= B -> B <= bpow radix2 64 -> d_x1 d = x ->
  let '(d', ys) := run_const d x n in
  let p := Rmax 0 (pole (d_c d)) in
  Rabs (R32 (d_y1 d') - R32 x) <= p ^ n * Rabs (R32 (d_y1 d) - R32 x) + 2 * resolution kappa * B.
Proof. exact settles_partial. Qed.

(** the first sample after an input change: y = b (x + x_prev) + p y_prev up to 11.5*2^-24*B *)
Theorem C13_first_sample_formula : forall d x B,
  good (d_c d) -> df1_bounded d B -> fin x -> Rabs (R32 x) <= B ->
  bpow radix2 (-100) <= B -> B <= bpow radix2 100 ->
  let y := snd (df1_run d x) in
  let p := pole (d_c d) in
  let b := R32 (k_b0 (d_c d)) in
  fin y /\
  Rabs (R32 y - ((1 - p) / 2 * (R32 x + R32 (d_x1 d)) + p * R32 (d_y1 d))) <= 15 / 2 * / 16777216 * B /\
  Rabs (R32 y - (b * (R32 x + R32 (d_x1 d)) + p * R32 (d_y1 d))) <= 23 / 2 * / 16777216 * B.
Proof. exact first_sample_formula. Qed.

(** so it stays in the hull of the new input, the previous input and the previous output *)
Theorem C13_first_sample_hull : forall d x B,
  good (d_c d) -> df1_bounded d B -> fin x -> Rabs (R32 x) <= B ->
  bpow radix2 (-100) <= B -> B <= bpow radix2 100 ->
  let y := R32 (snd (df1_run d x)) in
  let lo := Rmin (R32 x) (Rmin (R32 (d_x1 d)) (R32 (d_y1 d))) in
  let hi := Rmax (R32 x) (Rmax (R32 (d_x1 d)) (R32 (d_y1 d))) in
  lo - 16 * / 16777216 * B <= y <= hi + 16 * / 16777216 * B /\
  (0 <= pole (d_c d) -> lo - 15 / 2 * / 16777216 * B <= y <= hi + 15 / 2 * / 16777216 * B).
Proof. exact first_sample_hull. Qed.

(** why C13_approach starts at the second sample of a constant stretch: at the fastest setting (two-tap average) the inputs 1, 0.6, 0.6, 0.6 give 0.5, 0.8, 0.6, 0.6; the output that was below the new target when the input changed is above it one sample later, and from there on it approaches monotonically *)
Theorem C13_first_sample_crossing_witness :
  run_bits w_fs w_ops
  = Some [Some 1056964608; Some 1061997773; Some 1058642330; Some 1058642330]%Z /\
  (* 0x3f000000 = 0.5, 0x3f4ccccd = 0.8f32, 0x3f19999a = 0.6f32 *)
  w_crossing = true /\
  R32 w_fs = 1000 /\ R32 w_1 = 1 /\ R32 w_06 = 5033165 / 8388608 /\
  R32 (of_bits 1056964608) = / 2 /\ R32 (of_bits 1061997773) = 13421773 / 16777216.
Proof. exact first_sample_crossing_witness. Qed.

(** settling with the sharp constants: resolution*B in general, half of it for non-negative poles *)
Theorem C13_settles_sharp : forall d x B n kappa,
  good (d_c d) -> kappa <= speed (d_c d) -> / 100000 <= kappa ->
  df1_bounded d B -> fin x -> Rabs (R32 x) <= B ->
  bpow radix2 (-100) <= B -> B <= bpow radix2 64 -> d_x1 d = x ->
  let y := d_y1 (fst (run_const d x n)) in
  let p := Rmax 0 (pole (d_c d)) in
  Rabs (R32 y - R32 x) <= p ^ n * Rabs (R32 (d_y1 d) - R32 x) + resolution kappa * B /\
  (0 <= pole (d_c d) ->
   Rabs (R32 y - R32 x) <= p ^ n * Rabs (R32 (d_y1 d) - R32 x) + resolution kappa / 2 * B).
Proof. exact settles_sharp. Qed.

(** about the PROOF, not the filter: the induction step of the hull theorem (a real-valued lemma about the
    recurrence with a 7.5*2^-24 rounding term) is false with the constant 15; as long as poles down to -2^-22 are
    admitted, 16 is the least integer for which this proof method goes through.  It does not show that the f32
    filter ever exceeds a 15-bound *)
Theorem C13_hull_constant_needed : ~ (forall p kappa lo hi x x1 y1 out,
  - / 4194304 <= p < 1 -> kappa <= 1 - p -> / 100000 <= kappa -> lo <= 0 <= hi ->
  let M := Rmax (- lo) hi in
  let E := 15 * u24 / kappa * M in
  lo <= x <= hi -> lo <= x1 <= hi -> lo - E <= y1 <= hi + E ->
  Rabs (out - ((1 - p) / 2 * (x + x1) + p * y1)) <= 15 / 2 * u24 * (M + E) ->
  lo - E <= out <= hi + E).
Proof. exact hull_real_15_false. Qed.

(** the two run functions used by the statements (states / outputs) are the same run *)
Theorem C13_after_outputs_process : forall g x ops,
  glide_step g (GProcess x) = Some (fst (glide_process g x)) /\
  glide_after g (GProcess x :: ops) = glide_after (fst (glide_process g x)) ops /\
  glide_run (Some g) (GProcess x :: ops) = glide_run (Some (fst (glide_process g x))) ops /\
  glide_outputs g (GProcess x :: ops)
  = option_map (cons (snd (glide_process g x))) (glide_outputs (fst (glide_process g x)) ops) /\
  coeffs_used g (GProcess x :: ops) = d_c (g_lpf g) :: coeffs_used (fst (glide_process g x)) ops /\
  g_lpf (fst (glide_process g x)) = fst (df1_run (g_lpf g) x) /\
  snd (glide_process g x) = snd (df1_run (g_lpf g) x) /\
  g_cached_t (fst (glide_process g x)) = g_cached_t g.
Proof. exact after_outputs_process. Qed.

(** same for set_time *)
Theorem C13_after_outputs_set_time : forall g t ops,
  glide_step g (GSetTime t) = glide_set_time g t /\
  glide_after g (GSetTime t :: ops)
  = match glide_set_time g t with Some g' => glide_after g' ops | None => None end /\
  glide_outputs g (GSetTime t :: ops)
  = match glide_set_time g t with Some g' => glide_outputs g' ops | None => None end.
Proof. exact after_outputs_set_time. Qed.

(** one output per process call, defined exactly when the state run is *)
Theorem C13_outputs_defined_iff_after : forall ops g,
  (glide_outputs g ops = None <-> glide_after g ops = None) /\
  (forall ys, glide_outputs g ops = Some ys ->
     length ys = length (filter (fun o => match o with GProcess _ => true | _ => false end) ops)).
Proof. exact outputs_defined_iff_after. Qed.

(** the hypotheses of the approach / settle theorems hold in every reachable state: for every history with times in [0,10] and inputs in [lo,hi], the coefficients in force are good, at least as fast as 0.6/fs, and the filter state is bounded by (1 + resolution) M *)
Theorem C13_reachable_bounded : forall fs ops lo hi g,
  glide_fs_ok fs -> Forall op_time_ok ops -> Forall (op_input_in lo hi) ops ->
  lo <= 0 <= hi ->
  (Rmax (- lo) hi = 0 \/ bpow radix2 (-100) <= Rmax (- lo) hi) ->
  Rmax (- lo) hi <= bpow radix2 64 ->
  glide_run (glide_new fs) ops = Some g ->
  good (d_c (g_lpf g)) /\ 0.6 / R32 fs <= speed (d_c (g_lpf g)) /\
  hull_inv lo hi (resolution (0.6 / R32 fs) * Rmax (- lo) hi) (g_lpf g) /\
  df1_bounded (g_lpf g) ((1 + resolution (0.6 / R32 fs)) * Rmax (- lo) hi).
Proof. exact reachable_bounded. Qed.

(** the constant-input clause on real histories: after ANY history (set_time calls in the middle of a glide included), while an input is held the outputs contract toward it with the pole in force, from the first output of the stretch on (sharp constant 7.5*2^-24) *)
Theorem C13_trace_approach : forall (fs : f32) (g0 : glide) (rlo rhi B : R), glide_fs_ok fs -> glide_new fs = Some g0 -> rlo <= 0 <= rhi -> (Rmax (- rlo) rhi = 0 \/ bpow radix2 (-100) <= Rmax (- rlo) rhi) -> (1 + resolution (0.6 / R32 fs)) * Rmax (- rlo) rhi <= B -> bpow radix2 (-100) <= B -> B <= bpow radix2 64 ->
  forall ops x k,
  Forall op_time_ok ops -> Forall (op_input_in rlo rhi) ops -> fin x -> rlo <= R32 x <= rhi ->
  exists g ys zs,
    glide_after g0 ops = Some g /\ glide_outputs g0 ops = Some ys /\
    glide_outputs g0 (ops ++ repeat (GProcess x) (S (S k))) = Some (ys ++ zs) /\
    length zs = S (S k) /\
    forall j, (j <= k)%nat ->
      Rabs ((R32 (nth (S j) zs f_0) - R32 x) - pole (d_c (g_lpf g)) * (R32 (nth j zs f_0) - R32 x))
        <= 15 / 2 * u24 * B.
Proof. exact C13_trace_approach. Qed.

(** the same with further set_time calls inside the held stretch *)
Theorem C13_trace_approach_gen : forall (fs : f32) (g0 : glide) (rlo rhi B : R), glide_fs_ok fs -> glide_new fs = Some g0 -> rlo <= 0 <= rhi -> (Rmax (- rlo) rhi = 0 \/ bpow radix2 (-100) <= Rmax (- rlo) rhi) -> (1 + resolution (0.6 / R32 fs)) * Rmax (- rlo) rhi <= B -> bpow radix2 (-100) <= B -> B <= bpow radix2 64 ->
  forall ops x ts,
  Forall op_time_ok ops -> Forall (op_input_in rlo rhi) ops -> fin x -> rlo <= R32 x <= rhi ->
  Forall glide_time_ok ts ->
  exists g ys y1 y2,
    glide_after g0 (ops ++ GProcess x :: map GSetTime ts) = Some g /\
    glide_outputs g0 ops = Some ys /\
    glide_outputs g0 (ops ++ GProcess x :: map GSetTime ts ++ [GProcess x]) = Some (ys ++ [y1; y2]) /\
    fin y2 /\
    Rabs ((R32 y2 - R32 x) - pole (d_c (g_lpf g)) * (R32 y1 - R32 x)) <= 15 / 2 * u24 * B.
Proof. exact C13_trace_approach_gen. Qed.

(** and settle on it up to the resolution of the coefficients IN FORCE (not the slowest ever used), half of it for non-negative poles *)
Theorem C13_trace_settles : forall (fs : f32) (g0 : glide) (rlo rhi B : R), glide_fs_ok fs -> glide_new fs = Some g0 -> rlo <= 0 <= rhi -> (Rmax (- rlo) rhi = 0 \/ bpow radix2 (-100) <= Rmax (- rlo) rhi) -> (1 + resolution (0.6 / R32 fs)) * Rmax (- rlo) rhi <= B -> bpow radix2 (-100) <= B -> B <= bpow radix2 64 ->
  forall ops x n,
  Forall op_time_ok ops -> Forall (op_input_in rlo rhi) ops -> fin x -> rlo <= R32 x <= rhi ->
  exists g ys zs,
    glide_after g0 ops = Some g /\ glide_outputs g0 ops = Some ys /\
    glide_outputs g0 (ops ++ repeat (GProcess x) (S n)) = Some (ys ++ zs) /\
    length zs = S n /\
    let c := d_c (g_lpf g) in
    let p := Rmax 0 (pole c) in
    let y1 := hd f_0 zs in
    let y := last zs f_0 in
    Rabs (R32 y - R32 x) <= p ^ n * Rabs (R32 y1 - R32 x) + resolution (speed c) * B /\
    (0 <= pole c ->
     Rabs (R32 y - R32 x) <= p ^ n * Rabs (R32 y1 - R32 x) + resolution (speed c) / 2 * B).
Proof. exact C13_trace_settles. Qed.

(** the same from the last set_time call of the stretch on *)
Theorem C13_trace_settles_gen : forall (fs : f32) (g0 : glide) (rlo rhi B : R), glide_fs_ok fs -> glide_new fs = Some g0 -> rlo <= 0 <= rhi -> (Rmax (- rlo) rhi = 0 \/ bpow radix2 (-100) <= Rmax (- rlo) rhi) -> (1 + resolution (0.6 / R32 fs)) * Rmax (- rlo) rhi <= B -> bpow radix2 (-100) <= B -> B <= bpow radix2 64 ->
  forall ops x ts n,
  Forall op_time_ok ops -> Forall (op_input_in rlo rhi) ops -> fin x -> rlo <= R32 x <= rhi ->
  Forall glide_time_ok ts ->
  exists g ys y1 zs,
    glide_after g0 (ops ++ GProcess x :: map GSetTime ts) = Some g /\
    glide_outputs g0 ops = Some ys /\
    glide_outputs g0 (ops ++ GProcess x :: map GSetTime ts ++ repeat (GProcess x) n)
      = Some (ys ++ y1 :: zs) /\
    length zs = n /\
    let c := d_c (g_lpf g) in
    let p := Rmax 0 (pole c) in
    Rabs (R32 (last zs y1) - R32 x) <= p ^ n * Rabs (R32 y1 - R32 x) + resolution (speed c) * B /\
    (0 <= pole c ->
     Rabs (R32 (last zs y1) - R32 x) <= p ^ n * Rabs (R32 y1 - R32 x) + resolution (speed c) / 2 * B).
Proof. exact C13_trace_settles_gen. Qed.

Print Assumptions C13_coeffs_good.
Print Assumptions C13_one_step.
Print Assumptions C13_hull.
Print Assumptions C13_approach.
Print Assumptions C13_settles.
Print Assumptions C13_first_sample_formula.
Print Assumptions C13_first_sample_hull.
Print Assumptions C13_first_sample_crossing_witness.
Print Assumptions C13_settles_sharp.
Print Assumptions C13_hull_constant_needed.
Print Assumptions C13_after_outputs_process.
Print Assumptions C13_after_outputs_set_time.
Print Assumptions C13_outputs_defined_iff_after.
Print Assumptions C13_reachable_bounded.
Print Assumptions C13_trace_approach.
Print Assumptions C13_trace_approach_gen.
Print Assumptions C13_trace_settles.
Print Assumptions C13_trace_settles_gen.
