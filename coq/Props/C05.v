(** C05 — MIDI gate edges are reported exactly once per gate transition.
    Only the property theorems; proofs are in Proofs/MidiProofs.v. *)
From Coq Require Import ZArith Bool List.
Import ListNotations.
From SU Require Import F32.
From SU.Model Require Import Midi.
From SU.Spec Require Import MidiSpec.
From SU.Proofs Require Import MidiProofs.
Open Scope Z_scope.

(** [falling_gate()] called after any history returns true iff there is a gate fall
    not yet consumed by an earlier call and not followed by a new note-on *)
Theorem C05_falling : forall ch h,
  within_capacity (Z.min ch 15) h ->
  mout ch h OPollFall = Some (pending_fall (Z.min ch 15) h).
Proof. exact falling_refines. Qed.

(** [rising_gate()] called after any history returns true iff there is a raising note-on
    (gate was low, or retrigger mode) not yet consumed and not followed by a gate fall *)
Theorem C05_rising : forall ch h,
  within_capacity (Z.min ch 15) h ->
  mout ch h OPollRise = Some (pending_rise (Z.min ch 15) h).
Proof. exact rising_refines. Qed.

Theorem C05_rising_implies_high : forall ch h,
  r_rising (mrun ch h) = true -> r_gate (mrun ch h) = true.
Proof. exact rising_implies_gate. Qed.

Theorem C05_falling_implies_low : forall ch h,
  r_falling (mrun ch h) = true -> r_gate (mrun ch h) = false.
Proof. exact falling_implies_not_gate. Qed.

Example C05_example :
  let h := [OMsg (MNoteOn 0 60 100); OMsg (MControlChange 0 123 0)] in
  mout 0 h OPollFall = Some true /\ mout 0 (h ++ [OPollFall]) OPollFall = Some false
  /\ mout 0 [OMsg (MNoteOff 0 60 0)] OPollFall = Some false
  /\ mout 0 [OMsg (MNoteOn 0 60 100)] OPollRise = Some true.
Proof. vm_compute. repeat split; reflexivity. Qed.

Print Assumptions C05_falling.
Print Assumptions C05_rising.
Print Assumptions C05_rising_implies_high.
Print Assumptions C05_falling_implies_low.
