(** C05 — MIDI gate edges are reported exactly once per gate transition.
    Only the property theorems; proofs are in Proofs/MidiProofs.v. *)
From Coq Require Import ZArith Bool List.
Import ListNotations.
From SU Require Import F32.
From SU.Model Require Import Midi.
From SU.Spec Require Import MidiSpec.
From SU.Proofs Require Import MidiProofs.
From SU.Proofs Require Import MidiExtraProofs.
From SU.Proofs Require Import MidiCapacityWitness.
Open Scope Z_scope.

(** [falling_gate()] called after any history within capacity (unconditional version: C05_falling_any)
    returns true iff there is a gate fall
    not yet consumed by an earlier call and not followed by a new note-on *)
Theorem C05_falling : forall ch h,
  within_capacity (Z.min ch 15) h ->
  mout ch h OPollFall = Some (pending_fall (Z.min ch 15) h).
Proof. exact falling_refines. Qed.

(** [rising_gate()] called after any history within capacity (unconditional version: C05_rising_any)
    returns true iff there is a raising note-on
    (gate was low, or retrigger mode) not yet consumed and not followed by a gate fall *)
Theorem C05_rising : forall ch h,
  within_capacity (Z.min ch 15) h ->
  mout ch h OPollRise = Some (pending_rise (Z.min ch 15) h).
Proof. exact rising_refines. Qed.

Theorem C05_rising_implies_high : forall ch h,
  r_rising (mrun ch h) = true -> r_gate (mrun ch h) = true.
Proof. exact rising_implies_gate. Qed.

Theorem C05_falling_implies_low : forall ch h,
  r_falling (mrun ch h) = true -> r_gate (mrun ch h) = false.
Proof. exact falling_implies_not_gate. Qed.

Example C05_example :
  let h := [OMsg (MNoteOn 0 60 100); OMsg (MControlChange 0 123 0)] in
  mout 0 h OPollFall = Some true /\ mout 0 (h ++ [OPollFall]) OPollFall = Some false
  /\ mout 0 [OMsg (MNoteOff 0 60 0)] OPollFall = Some false
  /\ mout 0 [OMsg (MNoteOn 0 60 100)] OPollRise = Some true.
Proof. vm_compute. repeat split; reflexivity. Qed.

(** for EVERY history (no capacity hypothesis), with the edges defined over the receiver's real gate(): a falling poll returns true iff the gate went from true to false since the previous falling poll and no listened note-on arrived after that *)
Theorem C05_falling_any : forall ch h,
  mout ch h OPollFall = Some (pending_fall_g ch h).
Proof. exact C05_falling_any. Qed.

(** for EVERY history: a rising poll returns true iff a listened note-on raised the gate from low (or arrived in retrigger mode) since the previous rising poll and the gate did not drop afterwards *)
Theorem C05_rising_any : forall ch h,
  mout ch h OPollRise = Some (pending_rise_g ch h).
Proof. exact C05_rising_any. Qed.

(** within capacity the real-gate edges are the specification's edges (so C05_falling above is a corollary) *)
Theorem C05_pending_fall_g_spec : forall ch h,
  within_capacity (Z.min ch 15) h -> pending_fall_g ch h = pending_fall (Z.min ch 15) h.
Proof. exact pending_fall_g_spec. Qed.

(** same for rising *)
Theorem C05_pending_rise_g_spec : forall ch h,
  within_capacity (Z.min ch 15) h -> pending_rise_g ch h = pending_rise (Z.min ch 15) h.
Proof. exact pending_rise_g_spec. Qed.

(** the real gate is high exactly when the held list is non-empty, for every history *)
Theorem C05_gate_iff_held : forall ch h,
  r_gate (mrun ch h) = negb (isnil (r_held (mrun ch h))).
Proof. exact gate_iff_held. Qed.

(** why the real gate is the right reference beyond capacity: after 33 note-ons and 32 note-offs the real gate is low and falling_gate() reports it, while the unbounded specification still counts one outstanding note *)
Theorem C05_capacity_witness :
  r_gate (mrun 0 capacity_history) = false /\
  r_held (mrun 0 capacity_history) = [] /\
  mout 0 capacity_history OPollFall = Some true /\
  held_spec 0 capacity_history = [32] /\
  gate_spec 0 capacity_history = true /\
  pending_fall 0 capacity_history = false /\
  pending_fall_g 0 capacity_history = true /\
  ~ within_capacity 0 capacity_history.
Proof. exact capacity_witness. Qed.

Print Assumptions C05_falling.
Print Assumptions C05_rising.
Print Assumptions C05_rising_implies_high.
Print Assumptions C05_falling_implies_low.
Print Assumptions C05_falling_any.
Print Assumptions C05_rising_any.
Print Assumptions C05_pending_fall_g_spec.
Print Assumptions C05_pending_rise_g_spec.
Print Assumptions C05_gate_iff_held.
Print Assumptions C05_capacity_witness.
