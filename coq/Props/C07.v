(** C07 — Quantizer never outputs a forbidden note.  Only the property theorems;
    proofs are in Proofs/QuantProofs.v. *)
From Coq Require Import ZArith Bool List.
Import ListNotations.
From SU Require Import F32.
From SU.Model Require Import Quantizer.
From SU.Spec Require Import QuantSpec.
From SU.Proofs Require Import QuantProofs.
From SU.Proofs Require Import QuantExtraProofs.
Open Scope Z_scope.

(** (histories are well-formed when every scale note is a u8, as the Rust API enforces)
    at least one pitch class is always allowed, and only the 12 low bits are ever set *)
Theorem C07_mask_invariant : forall ops, wf_ops ops -> valid_mask (q_allowed (qrun ops)).
Proof. exact mask_invariant. Qed.

(** every conversion, after any history of allow / forbid / convert calls and for every
    f32 input (NaN and infinities included), reports a note whose pitch class is allowed
    in the mask in force at the time of the call *)
Theorem C07_note_allowed : forall ops v,
  wf_ops ops ->
  let q := qrun ops in
  note_allowed (q_allowed q) (c_note (snd (convert q v))) = true.
Proof. exact convert_note_allowed. Qed.

(** a forbid call that would empty the scale leaves exactly the last note of its
    argument (numbers above 11 acting as 11) allowed *)
Theorem C07_forbid_keeps_last : forall ops ns,
  wf_ops ops -> u8_notes ns ->
  let q := qrun ops in
  forbid_bits (q_allowed q) ns = 0 ->
  q_allowed (quant_forbid q ns) = Z.shiftl 1 (note_new (last ns 0)).
Proof. exact forbid_keeps_last. Qed.

(** [forbid] (also with an empty slice) can not panic *)
Theorem C07_no_panic : forall ops o, wf_ops ops -> wf_op o -> quant_step_ok (qrun ops) o = true.
Proof. exact quant_no_panic. Qed.

Example C07_example :
  let q := qrun [QConvert (of_bits 1074135040); QForbid [1]] in   (* 2.09375 V -> note 25, then forbid C# *)
  c_note (q_cached q) = 25 /\ c_note (snd (convert q (of_bits 1074135040))) = 26.
Proof. vm_compute. split; reflexivity. Qed.

(** non-vacuity of C07_forbid_keeps_last *)
Theorem C07_ex_forbid_keeps_last :
  let ops := [QForbid [1; 3; 6; 8; 10]] in
  let ns := [0; 2; 4; 5; 7; 9; 11; 200] in
  let q := qrun ops in
  wf_ops ops /\ u8_notes ns /\ q_allowed q = 2741 /\ forbid_bits (q_allowed q) ns = 0 /\
  q_allowed (quant_forbid q ns) = 2048 /\ Z.shiftl 1 (note_new (last ns 0)) = 2048.
Proof. exact ex_forbid_keeps_last. Qed.

Print Assumptions C07_mask_invariant.
Print Assumptions C07_note_allowed.
Print Assumptions C07_forbid_keeps_last.
Print Assumptions C07_no_panic.
Print Assumptions C07_ex_forbid_keeps_last.
