(** C07 — Quantizer never outputs a forbidden note.  Only the property theorems;
    proofs are in Proofs/QuantProofs.v. *)
From Coq Require Import ZArith Bool List.
Import ListNotations.
From SU Require Import F32.
From SU.Model Require Import Quantizer.
From SU.Spec Require Import QuantSpec.
From SU.Proofs Require Import QuantProofs.
From SU.Proofs Require Import QuantExtraProofs.
From SU.Proofs Require Import QuantKillers.
Open Scope Z_scope.

(** (histories are well-formed when every scale note is a u8, as the Rust API enforces)
    at least one pitch class is always allowed, and only the 12 low bits are ever set *)
Theorem C07_mask_invariant : forall ops, wf_ops ops -> valid_mask (q_allowed (qrun ops)).
Proof. exact mask_invariant. Qed.

(** every conversion, after any history of allow / forbid / convert calls and for every
    f32 input (NaN and infinities included), reports a note whose pitch class is allowed
    in the mask in force at the time of the call *)
Theorem C07_note_allowed : forall ops v,
  wf_ops ops ->
  let q := qrun ops in
  note_allowed (q_allowed q) (c_note (snd (convert q v))) = true.
Proof. exact convert_note_allowed. Qed.

(** a forbid call that would empty the scale leaves exactly the last note of its
    argument (numbers above 11 acting as 11) allowed *)
Theorem C07_forbid_keeps_last : forall ops ns,
  wf_ops ops -> u8_notes ns ->
  let q := qrun ops in
  forbid_bits (q_allowed q) ns = 0 ->
  q_allowed (quant_forbid q ns) = Z.shiftl 1 (note_new (last ns 0)).
Proof. exact forbid_keeps_last. Qed.

(** [forbid] (also with an empty slice) can not panic *)
Theorem C07_no_panic : forall ops o, wf_ops ops -> wf_op o -> quant_step_ok (qrun ops) o = true.
Proof. exact quant_no_panic. Qed.

Example C07_example :
  let q := qrun [QConvert (of_bits 1074135040); QForbid [1]] in   (* 2.09375 V -> note 25, then forbid C# *)
  c_note (q_cached q) = 25 /\ c_note (snd (convert q (of_bits 1074135040))) = 26.
Proof. vm_compute. split; reflexivity. Qed.

(** non-vacuity of C07_forbid_keeps_last *)
Theorem C07_ex_forbid_keeps_last :
  let ops := [QForbid [1; 3; 6; 8; 10]] in
  let ns := [0; 2; 4; 5; 7; 9; 11; 200] in
  let q := qrun ops in
  wf_ops ops /\ u8_notes ns /\ q_allowed q = 2741 /\ forbid_bits (q_allowed q) ns = 0 /\
  q_allowed (quant_forbid q ns) = 2048 /\ Z.shiftl 1 (note_new (last ns 0)) = 2048.
Proof. exact ex_forbid_keeps_last. Qed.

(** what allow(ns) does to the scale, note by note: a pitch class is allowed afterwards iff it was before or is mentioned (numbers above 11 count as 11) *)
Theorem C07_allow_bits_spec : forall ns a n,
  u8_notes ns -> 0 <= n ->
  bit_allowed (allow_bits a ns) n = bit_allowed a n || mentions ns n.
Proof. exact allow_bits_spec. Qed.

(** what forbid(ns) does (before the last-note rule): allowed afterwards iff it was before and is not mentioned *)
Theorem C07_forbid_bits_spec : forall ns a n,
  u8_notes ns -> 0 <= n <= 11 ->
  bit_allowed (forbid_bits a ns) n = bit_allowed a n && negb (mentions ns n).
Proof. exact forbid_bits_spec. Qed.

(** the same on reachable quantizers *)
Theorem C07_allow_mask : forall ops ns n, wf_ops ops -> u8_notes ns -> 0 <= n <= 11 ->
  let q := qrun ops in
  bit_allowed (q_allowed (quant_step q (QAllow ns))) n
  = bit_allowed (q_allowed q) n || mentions ns n.
Proof. exact KQ_allow_mask. Qed.

(** the same on reachable quantizers, when the call does not empty the scale *)
Theorem C07_forbid_mask : forall ops ns n, wf_ops ops -> u8_notes ns -> 0 <= n <= 11 ->
  let q := qrun ops in
  forbid_bits (q_allowed q) ns <> 0 ->
  bit_allowed (q_allowed (quant_step q (QForbid ns))) n
  = bit_allowed (q_allowed q) n && negb (mentions ns n).
Proof. exact KQ_forbid_mask. Qed.

(** non-vacuity: multi-note calls *)
Theorem C07_ex_masks :
  q_allowed (qrun [QForbid [0; 1; 2; 3; 4; 5; 6; 7; 8; 9; 10; 11]; QAllow [0; 4; 200]]) = 2065 /\
  q_allowed (qrun [QForbid [1; 3; 250]]) = 2037 /\
  q_allowed (qrun [QForbid [1; 3]; QAllow [3; 1]]) = 4095.
Proof. exact KQ_ex_masks. Qed.

(** the panic guard is exactly the Rust panic site: `notes[len-1..]` of an empty slice when the scale would become empty *)
Theorem C07_forbid_panic_site : forall q ns,
  quant_forbid_ok q ns = false <-> (forbid_bits (q_allowed q) ns = 0 /\ ns = []).
Proof. exact KQ_forbid_panic_site. Qed.

(** no other operation can panic *)
Theorem C07_step_panic_site : forall q o,
  quant_step_ok q o = false <->
  exists ns, o = QForbid ns /\ forbid_bits (q_allowed q) ns = 0 /\ ns = [].
Proof. exact KQ_step_panic_site. Qed.

Print Assumptions C07_mask_invariant.
Print Assumptions C07_note_allowed.
Print Assumptions C07_forbid_keeps_last.
Print Assumptions C07_no_panic.
Print Assumptions C07_ex_forbid_keeps_last.
Print Assumptions C07_allow_bits_spec.
Print Assumptions C07_forbid_bits_spec.
Print Assumptions C07_allow_mask.
Print Assumptions C07_forbid_mask.
Print Assumptions C07_ex_masks.
Print Assumptions C07_forbid_panic_site.
Print Assumptions C07_step_panic_site.
