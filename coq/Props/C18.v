(** C18 — MIDI controllers and pitch bend are scaled and routed as documented.
    Only the property theorems; proofs are in Proofs/MidiCCProofs.v. *)
From Coq Require Import ZArith Bool List Reals.
Import ListNotations.
From SU Require Import F32 F32Lemmas.
From SU.Model Require Import Midi.
From SU.Spec Require Import MidiSpec.
From SU.Proofs Require Import MidiCCProofs.
Open Scope Z_scope.

(** the eight controller outputs and the pitch bend *)
Definition ctrl_view (r : rx) :=
  (r_pitch_bend r, r_mod_wheel r, r_volume r, r_cutoff r, r_resonance r, r_porta_time r,
   r_porta_en r, r_sustain_en r).

(** everything else a control change could touch *)
Definition note_view (r : rx) :=
  (r_note r, r_velocity r, r_gate r, r_rising r, r_falling r, r_held r, r_parser r, r_channel r,
   r_retrig r, r_prio r).

(** a control change on the listened channel is dispatched on the controller number *)
Theorem C18_dispatch : forall r c v, apply_msg r (MControlChange (r_channel r) c v) = handle_cc r c v.
Proof. exact cc_dispatch. Qed.

(** the routing table, with the controller numbers as literals *)
Theorem C18_routing : forall r c v,
  let '(pb, mw, vol, cut, res, pt, pe, se) := ctrl_view r in
  ctrl_view (handle_cc r c v) =
    if c =? 1 then (pb, value7_to_f32 v, vol, cut, res, pt, pe, se)
    else if c =? 7 then (pb, mw, value7_to_f32 v, cut, res, pt, pe, se)
    else if c =? 71 then (pb, mw, vol, value7_to_f32 v, res, pt, pe, se)
    else if c =? 74 then (pb, mw, vol, cut, value7_to_f32 v, pt, pe, se)
    else if c =? 5 then (pb, mw, vol, cut, res, value7_to_f32 v, pe, se)
    else if c =? 65 then (pb, mw, vol, cut, res, pt, 64 <=? v, se)
    else if c =? 64 then (pb, mw, vol, cut, res, pt, pe, 64 <=? v)
    else if c =? 121 then (f_0, f_0, f_0, f_0, f_0, f_0, true, true)
    else (pb, mw, vol, cut, res, pt, pe, se).
Proof. exact cc_routing. Qed.

(** controller 121 restores the power-on defaults *)
Theorem C18_reset_is_power_on : forall r ch v,
  ctrl_view (handle_cc r 121 v) = ctrl_view (rx_new ch).
Proof. exact cc_reset_power_on. Qed.

(** no controller except All-Notes-Off (123) touches anything but the controller outputs *)
Theorem C18_notes_untouched : forall r c v, c <> 123 -> note_view (handle_cc r c v) = note_view r.
Proof. exact cc_notes_untouched. Qed.

(** value / 127: 0 -> 0.0, 127 -> 1.0, strictly increasing, correctly rounded quotient *)
Theorem C18_cc_scale :
  value7_to_f32 0 = f_0 /\ value7_to_f32 127 = f_1 /\
  (forall a b, 0 <= a -> a < b -> b <= 127 -> flt (value7_to_f32 a) (value7_to_f32 b) = true) /\
  (forall v, 0 <= v <= 127 -> fin (value7_to_f32 v) /\ R32 (value7_to_f32 v) = rnd (IZR v / 127)).
Proof. exact cc_scale. Qed.

(** pitch bend: strictly increasing in the 14-bit value, 0 -> -1.0, 8192 -> exactly 0.0,
    16383 -> +1.0 *)
Definition bend (x : Z) : f32 := value14_to_f32 (x / 128) (x mod 128).
Theorem C18_pitch_bend :
  bend 0 = f_m1 /\ bend 8192 = f_0 /\ bend 16383 = f_1 /\
  (forall a b, 0 <= a -> a < b -> b <= 16383 -> flt (bend a) (bend b) = true).
Proof. exact pitch_bend_scale. Qed.

(** assembled LSB first: the first data byte is the low 7 bits *)
Theorem C18_lsb_first : forall ch lsb msb,
  0 <= ch < 16 -> 0 <= lsb < 128 -> 0 <= msb < 128 ->
  parser_msgs Idle [224 + ch; lsb; msb] = [MPitchBend ch msb lsb] /\
  r_pitch_bend (apply_msg (rx_new ch) (MPitchBend ch msb lsb)) = bend (128 * msb + lsb).
Proof. exact pitch_bend_lsb_first. Qed.

Print Assumptions C18_dispatch.
Print Assumptions C18_routing.
Print Assumptions C18_reset_is_power_on.
Print Assumptions C18_notes_untouched.
Print Assumptions C18_cc_scale.
Print Assumptions C18_pitch_bend.
Print Assumptions C18_lsb_first.
