(** C19 — Quantizer result record is self-consistent.
    Only the property theorems; proofs are in Proofs/QuantRecordProofs.v. *)
From Coq Require Import ZArith Bool List Reals Lia.
Import ListNotations.
From Flocq Require Import Core.
From SU Require Import F32 F32Lemmas.
From SU.Model Require Import Quantizer.
From SU.Spec Require Import QuantSpec.
From SU.Proofs Require Import QuantRecordProofs.
From SU.Proofs Require Import QuantExtraProofs.
From SU.Proofs Require Import QuantKillers.
Open Scope R_scope.

(** every conversion, on both paths, reports stairstep = note number / 12 (the correctly
    rounded f32 quotient) and a note in 0..131 *)
Theorem C19_stairstep : forall ops v, wf_ops ops ->
  let c := snd (convert (qrun ops) v) in
  (0 <= c_note c <= 131)%Z /\ c_stair c = stair_of (c_note c) /\
  fin (c_stair c) /\ R32 (c_stair c) = rnd (IZR (c_note c) / 12).
Proof. exact stairstep_spec. Qed.

(** the fraction is (clamped input) - stairstep on both paths *)
Theorem C19_fraction : forall ops v, wf_ops ops ->
  let c := snd (convert (qrun ops) v) in
  c_frac c = fsub (clamp_vin v) (c_stair c).
Proof. exact fraction_spec. Qed.

(** stairstep + fraction reproduces the clamped input to within two f32 ulps of the larger
    of input and stairstep; for inputs within [0, 10] V the clamped value is the input *)
Theorem C19_recompose : forall ops v, wf_ops ops ->
  let c := snd (convert (qrun ops) v) in
  let v' := clamp_vin v in
  fin (fadd (c_stair c) (c_frac c)) /\
  Rabs (R32 (fadd (c_stair c) (c_frac c)) - R32 v')
    <= 2 * ulp radix2 fexp32 (Rmax (Rabs (R32 v')) (R32 (c_stair c))) /\
  (fin v -> 0 <= R32 v <= 10 -> v' = v).
Proof. exact recompose_spec. Qed.

(** chromatic scale, no history: the fraction lies in [0, 1) semitone, up to the 10 microvolt
    resolution of the integer note search *)
Theorem C19_chromatic_fraction : forall v,
  let c := snd (convert quant_new v) in
  fin (c_frac c) /\ - / 100000 <= R32 (c_frac c) < / 12 + / 100000.
Proof. exact chromatic_fraction. Qed.

(** whenever the hysteresis window kept the previous note the fraction lies within
    [-0.1, 1.1] semitones (up to f32 rounding, 2^-18 V) *)
Theorem C19_window_fraction : forall ops v, wf_ops ops ->
  let q := qrun ops in
  keeps q v = true ->
  let c := snd (convert q v) in
  fin (c_frac c) /\ - / 120 - / 262144 <= R32 (c_frac c) <= / 12 + / 120 + / 262144.
Proof. exact window_fraction. Qed.

(** non-vacuity of C19_window_fraction *)
Open Scope Z_scope.
Theorem C19_ex_window_fraction :
  let ops := [QConvert v_0_5] in
  let q := qrun ops in
  let c := snd (convert q v_0_5042) in
  wf_ops ops /\ keeps q v_0_5042 = true /\
  to_bits (c_frac c) = Some 998803584 /\
  (fin (c_frac c) /\ - / 120 - / 262144 <= R32 (c_frac c) <= / 12 + / 120 + / 262144)%R.
Proof. exact ex_window_fraction. Qed.
Close Scope Z_scope.

(** converting the same input twice gives the same record (and state) the second time *)
Open Scope Z_scope.
Theorem C19_convert_idem : forall ops v, wf_ops ops ->
  let q := qrun ops in
  snd (convert (fst (convert q v)) v) = snd (convert q v) /\
  fst (convert (fst (convert q v)) v) = fst (convert q v).
Proof. exact convert_idem. Qed.
Close Scope Z_scope.

(** the power-on record and scale *)
Open Scope Z_scope.
Theorem C19_initial_state :
  c_note conv_new = 0 /\ c_stair conv_new = f_MIN /\ c_frac conv_new = f_0 /\
  q_cached quant_new = conv_new /\ q_allowed quant_new = 4095.
Proof. exact KQ_initial_state. Qed.
Close Scope Z_scope.

Print Assumptions C19_stairstep.
Print Assumptions C19_fraction.
Print Assumptions C19_recompose.
Print Assumptions C19_chromatic_fraction.
Print Assumptions C19_window_fraction.
Print Assumptions C19_ex_window_fraction.
Print Assumptions C19_convert_idem.
Print Assumptions C19_initial_state.
