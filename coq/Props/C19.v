(** C19 — Quantizer result record is self-consistent.
    Only the property theorems; proofs are in Proofs/QuantRecordProofs.v. *)
From Coq Require Import ZArith Bool List Reals Lia.
From Flocq Require Import Core IEEE754.BinarySingleNaN.
Import ListNotations.
From Flocq Require Import Core.
From SU Require Import F32 F32Lemmas.
From SU.Model Require Import Quantizer.
From SU.Spec Require Import QuantSpec.
From SU.Proofs Require Import QuantRecordProofs.
From SU.Proofs Require Import QuantExtraProofs.
From SU.Proofs Require Import QuantKillers.
From SU.Proofs Require Import QuantFractionProofs.
Open Scope R_scope.

(** every conversion, on both paths, reports stairstep = note number / 12 (the correctly
    rounded f32 quotient) and a note in 0..131 *)
Theorem C19_stairstep : forall ops v, wf_ops ops ->
  let c := snd (convert (qrun ops) v) in
  (0 <= c_note c <= 131)%Z /\ c_stair c = stair_of (c_note c) /\
  fin (c_stair c) /\ R32 (c_stair c) = rnd (IZR (c_note c) / 12).
Proof. exact stairstep_spec. Qed.

(** the fraction is (clamped input) - stairstep on both paths *)
Theorem C19_fraction : forall ops v, wf_ops ops ->
  let c := snd (convert (qrun ops) v) in
  c_frac c = fsub (clamp_vin v) (c_stair c).
Proof. exact fraction_spec. Qed.

(** stairstep + fraction reproduces the clamped input to within two f32 ulps of the larger
    of input and stairstep; for inputs within [0, 10] V the clamped value is the input *)
Theorem C19_recompose : forall ops v, wf_ops ops ->
  let c := snd (convert (qrun ops) v) in
  let v' := clamp_vin v in
  fin (fadd (c_stair c) (c_frac c)) /\
  Rabs (R32 (fadd (c_stair c) (c_frac c)) - R32 v')
    <= 2 * ulp radix2 fexp32 (Rmax (Rabs (R32 v')) (R32 (c_stair c))) /\
  (fin v -> 0 <= R32 v <= 10 -> v' = v).
Proof. exact recompose_spec. Qed.

(** chromatic scale, no history: the fraction lies in [0, 1) semitone, up to the 10 microvolt
    resolution of the integer note search *)
Theorem C19_chromatic_fraction : forall v,
  let c := snd (convert quant_new v) in
  fin (c_frac c) /\ - / 100000 <= R32 (c_frac c) < / 12 + / 100000.
Proof. exact chromatic_fraction. Qed.

(** whenever the hysteresis window kept the previous note the fraction lies within
    [-0.1, 1.1] semitones (up to f32 rounding, 2^-18 V) *)
Theorem C19_window_fraction : forall ops v, wf_ops ops ->
  let q := qrun ops in
  keeps q v = true ->
  let c := snd (convert q v) in
  fin (c_frac c) /\ - / 120 - / 262144 <= R32 (c_frac c) <= / 12 + / 120 + / 262144.
Proof. exact window_fraction. Qed.

(** non-vacuity of C19_window_fraction *)
Open Scope Z_scope.
Theorem C19_ex_window_fraction :
  let ops := [QConvert v_0_5] in
  let q := qrun ops in
  let c := snd (convert q v_0_5042) in
  wf_ops ops /\ keeps q v_0_5042 = true /\
  to_bits (c_frac c) = Some 998803584 /\
  (fin (c_frac c) /\ - / 120 - / 262144 <= R32 (c_frac c) <= / 12 + / 120 + / 262144)%R.
Proof. exact ex_window_fraction. Qed.
Close Scope Z_scope.

(** converting the same input twice gives the same record (and state) the second time *)
Open Scope Z_scope.
Theorem C19_convert_idem : forall ops v, wf_ops ops ->
  let q := qrun ops in
  snd (convert (fst (convert q v)) v) = snd (convert q v) /\
  fst (convert (fst (convert q v)) v) = fst (convert q v).
Proof. exact convert_idem. Qed.
Close Scope Z_scope.

(** the power-on record and scale *)
Open Scope Z_scope.
Theorem C19_initial_state :
  c_note conv_new = 0 /\ c_stair conv_new = f_MIN /\ c_frac conv_new = f_0 /\
  q_cached quant_new = conv_new /\ q_allowed quant_new = 4095.
Proof. exact KQ_initial_state. Qed.
Close Scope Z_scope.

(** the [0,1)-semitone fraction range with history: on the chromatic scale, whenever the note is not kept, the record is the one a fresh quantizer reports *)
Theorem C19_chromatic_fraction_after_history : forall ops v, wf_ops ops ->
  let q := qrun ops in
  q_allowed q = 4095%Z -> keeps q v = false ->
  let c := snd (convert q v) in
  let c0 := snd (convert quant_new v) in
  c_note c = c_note c0 /\ c_stair c = c_stair c0 /\ c_frac c = c_frac c0 /\
  fin (c_frac c) /\ - / 100000 <= R32 (c_frac c) < / 12 + / 100000.
Proof. exact chromatic_fraction_after_history. Qed.

(** chromatic scale, any history, any input: one case-free statement of the two ranges *)
Theorem C19_chromatic_fraction_any : forall ops v, wf_ops ops ->
  let q := qrun ops in
  q_allowed q = 4095%Z ->
  let c := snd (convert q v) in
  fin (c_frac c) /\
  - / 120 - / 262144 <= R32 (c_frac c) <= / 12 + / 120 + / 262144 /\
  (keeps q v = false -> - / 100000 <= R32 (c_frac c) < / 12 + / 100000).
Proof. exact chromatic_fraction_any. Qed.

(** every clause of the record for any reachable quantizer and any scale, keep path and search path alike; the real sum stair + fraction is within half an ulp (at most 2^-20 V) of the clamped input *)
Theorem C19_record_consistent_any : forall ops v, wf_ops ops ->
  let q := qrun ops in
  let c := snd (convert q v) in
  let v' := clamp_vin v in
  (0 <= c_note c <= 131)%Z /\ c_stair c = stair_of (c_note c) /\
  fin (c_stair c) /\ R32 (c_stair c) = rnd (IZR (c_note c) / 12) /\
  c_frac c = fsub v' (c_stair c) /\
  fin (c_frac c) /\ R32 (c_frac c) = rnd (R32 v' - R32 (c_stair c)) /\
  Rabs (R32 (c_stair c) + R32 (c_frac c) - R32 v')
    <= / 2 * ulp radix2 fexp32 (Rmax (Rabs (R32 v')) (R32 (c_stair c))) /\
  Rabs (R32 (c_stair c) + R32 (c_frac c) - R32 v') <= / 1048576 /\
  fin (fadd (c_stair c) (c_frac c)) /\
  Rabs (R32 (fadd (c_stair c) (c_frac c)) - R32 v')
    <= 2 * ulp radix2 fexp32 (Rmax (Rabs (R32 v')) (R32 (c_stair c))) /\
  (keeps q v = true -> c_note c = c_note (q_cached q)) /\
  (keeps q v = false -> c_note c = find_nearest_note (q_allowed q) v').
Proof. exact record_consistent_any. Qed.

(** non-vacuity *)
Open Scope Z_scope.
Theorem C19_ex_fraction_after_history :
  let ops := [QConvert v_0_5] in
  let q := qrun ops in
  let c := snd (convert q v_0_7) in
  let c0 := snd (convert quant_new v_0_7) in
  wf_ops ops /\ q_allowed q = 4095 /\ c_note (q_cached q) = 6 /\
  keeps q v_0_7 = false /\
  c_note c = 8 /\ to_bits (c_stair c) = Some 1059760811 /\
  to_bits (c_frac c) = Some 1023969408 /\
  c_note c0 = 8 /\ to_bits (c_stair c0) = Some 1059760811 /\
  to_bits (c_frac c0) = Some 1023969408 /\
  (fin (c_frac c) /\ - / 100000 <= R32 (c_frac c) < / 12 + / 100000)%R.
Proof. exact ex_fraction_after_history. Qed.
Close Scope Z_scope.

(** non-vacuity: NaN and +inf after history *)
Open Scope Z_scope.
Theorem C19_ex_fraction_after_history_nonfinite :
  let ops := [QConvert v_0_5] in
  let q := qrun ops in
  let cn := snd (convert q B754_nan) in
  let ci := snd (convert q (B754_infinity false)) in
  wf_ops ops /\ q_allowed q = 4095 /\
  keeps q B754_nan = false /\ keeps q (B754_infinity false) = false /\
  c_note cn = 0 /\ to_bits (c_stair cn) = Some 0 /\ to_bits (c_frac cn) = Some 0 /\
  c_note ci = 120 /\ to_bits (c_stair ci) = Some 1092616192 /\ to_bits (c_frac ci) = Some 0 /\
  (fin (c_frac cn) /\ - / 100000 <= R32 (c_frac cn) < / 12 + / 100000)%R /\
  (fin (c_frac ci) /\ - / 100000 <= R32 (c_frac ci) < / 12 + / 100000)%R.
Proof. exact ex_fraction_after_history_nonfinite. Qed.
Close Scope Z_scope.

Print Assumptions C19_stairstep.
Print Assumptions C19_fraction.
Print Assumptions C19_recompose.
Print Assumptions C19_chromatic_fraction.
Print Assumptions C19_window_fraction.
Print Assumptions C19_ex_window_fraction.
Print Assumptions C19_convert_idem.
Print Assumptions C19_initial_state.
Print Assumptions C19_chromatic_fraction_after_history.
Print Assumptions C19_chromatic_fraction_any.
Print Assumptions C19_record_consistent_any.
Print Assumptions C19_ex_fraction_after_history.
Print Assumptions C19_ex_fraction_after_history_nonfinite.
