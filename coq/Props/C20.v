(** C20 — Out-of-range parameters are clamped to the nearest legal value.
    Only the property theorems; proofs are in Proofs/ClampProofs.v. *)
From Coq Require Import ZArith Bool List Reals.
Import ListNotations.
From Flocq Require Import IEEE754.BinarySingleNaN.
From SU Require Import F32 F32Lemmas.
From SU.Model Require Import Adsr Quantizer Midi.
From SU.Proofs Require Import ClampProofs.
From SU.Proofs Require Import AdsrKillers.
Open Scope R_scope.

(** the bounds, as literals: 0.001 (as an f32: 0x3a83126f) and 20.0 *)
Theorem C20_time_bounds :
  MIN_TIME = of_bits 981668463 /\ MAX_TIME = of_bits 1101004800 /\
  R32 MIN_TIME = 8589935 / 8589934592 /\ R32 MAX_TIME = 20.
Proof. exact time_bounds. Qed.

(** every f32 (all four kinds: zero, finite, infinite, NaN) converted to an envelope time *)
Theorem C20_time_clamp : forall x : f32,
  let t := time_from x in
  fin t /\ R32 MIN_TIME <= R32 t <= R32 MAX_TIME /\
  (fin x -> R32 MIN_TIME <= R32 x <= R32 MAX_TIME -> t = x) /\
  (fin x -> R32 x < R32 MIN_TIME -> t = MIN_TIME) /\
  (fin x -> R32 MAX_TIME < R32 x -> t = MAX_TIME) /\
  (x = B754_infinity true -> t = MIN_TIME) /\
  (x = B754_infinity false -> t = MAX_TIME) /\
  (x = B754_nan -> t = MIN_TIME).
Proof. exact time_clamp. Qed.

(** every f32 converted to a sustain level: [0, 1] likewise *)
Theorem C20_sustain_clamp : forall x : f32,
  let s := sustain_from x in
  fin s /\ 0 <= R32 s <= 1 /\
  (fin x -> 0 <= R32 x <= 1 -> s = x) /\
  (fin x -> R32 x < 0 -> s = f_0) /\
  (fin x -> 1 < R32 x -> s = f_1) /\
  (x = B754_infinity true -> s = f_0) /\
  (x = B754_infinity false -> s = f_1) /\
  (x = B754_nan -> s = f_0).
Proof. exact sustain_clamp. Qed.

(** an envelope configured with an out-of-range value behaves identically to one
    configured with the corresponding bound: the conversions are idempotent and the
    envelope only ever sees the converted value *)
Theorem C20_same_behaviour : forall s x,
  adsr_step s (ASetAttack x) = adsr_step s (ASetAttack (time_from x)) /\
  adsr_step s (ASetDecay x) = adsr_step s (ASetDecay (time_from x)) /\
  adsr_step s (ASetRelease x) = adsr_step s (ASetRelease (time_from x)) /\
  adsr_step s (ASetSustain x) = adsr_step s (ASetSustain (sustain_from x)).
Proof. exact same_behaviour. Qed.

(** scale note numbers above 11 act as 11 (u8 arguments) *)
Theorem C20_note_clamp : forall n : Z, (0 <= n < 256)%Z ->
  note_new n = Z.min n 11 /\
  (forall a, allow_bits a [n] = allow_bits a [Z.min n 11]) /\
  (forall a, forbid_bits a [n] = forbid_bits a [Z.min n 11]).
Proof. exact note_clamp. Qed.

(** MIDI channels above 15 act as 15 *)
Theorem C20_channel_clamp : forall ch : Z, (0 <= ch < 256)%Z ->
  rx_new ch = rx_new (Z.min ch 15) /\ r_channel (rx_new ch) = Z.min ch 15.
Proof. exact channel_clamp. Qed.

(** the documented defaults: fastest times, 100% sustain *)
Theorem C20_new_defaults : forall fs,
  a_attack (adsr_new fs) = MIN_TIME /\ a_decay (adsr_new fs) = MIN_TIME /\
  a_release (adsr_new fs) = MIN_TIME /\ a_sustain (adsr_new fs) = f_1 /\
  a_von (adsr_new fs) = f_0 /\ a_voff (adsr_new fs) = f_0.
Proof. exact new_defaults. Qed.

Print Assumptions C20_time_bounds.
Print Assumptions C20_time_clamp.
Print Assumptions C20_sustain_clamp.
Print Assumptions C20_same_behaviour.
Print Assumptions C20_note_clamp.
Print Assumptions C20_channel_clamp.
Print Assumptions C20_new_defaults.
