(** C04 — MIDI gate and note number track the keys that are held.
    This file contains only the property theorems; proofs are in Proofs/MidiProofs.v. *)
From Coq Require Import ZArith Bool List.
Import ListNotations.
From SU Require Import F32.
From SU.gen Require Import Consts.
From SU.Model Require Import Midi.
From SU.Spec Require Import MidiSpec.
From SU.Proofs Require Import MidiProofs.
From SU.Proofs Require Import MidiExtraProofs.
From SU.Proofs Require Import MidiIgnoredProofs.
Open Scope Z_scope.

(** the held-note list of the receiver is the list of outstanding note-ons, for every
    history of messages / polls / mode changes in which at most 32 are outstanding at once *)
Theorem C04_held : forall ch h,
  within_capacity (Z.min ch 15) h ->
  r_held (mrun ch h) = held_spec (Z.min ch 15) h.
Proof. exact held_refines. Qed.

Theorem C04_gate : forall ch h,
  within_capacity (Z.min ch 15) h ->
  r_gate (mrun ch h) = gate_spec (Z.min ch 15) h.
Proof. exact gate_refines. Qed.

Theorem C04_note : forall ch h,
  within_capacity (Z.min ch 15) h ->
  r_note (mrun ch h) = note_spec (Z.min ch 15) h.
Proof. exact note_refines. Qed.

Theorem C04_velocity : forall ch h,
  r_velocity (mrun ch h) = velocity_spec (Z.min ch 15) h.
Proof. exact velocity_refines. Qed.

(** the capacity in the statement is the literal 32 *)
Theorem C04_capacity_is_32 : HELD_DOWN_NOTE_BUFFER_LEN = 32.
Proof. reflexivity. Qed.

(** non-vacuity: a history with duplicates, a stray note-off and a zero-velocity note-on *)
Example C04_example :
  let h := [OMsg (MNoteOn 3 60 100); OMsg (MNoteOn 3 64 90); OMsg (MNoteOn 3 60 80);
            OMsg (MNoteOff 3 61 0); OSetPrio PLow; OMsg (MNoteOn 3 64 0);
            OMsg (MNoteOn 2 30 99)] in
  held_spec 3 h = [60; 60] /\ r_held (mrun 3 h) = [60; 60] /\ r_note (mrun 3 h) = 60
  /\ r_gate (mrun 3 h) = true.
Proof. vm_compute. repeat split; reflexivity. Qed.

(** the priority rule, characterised without reference to the model's selection function: the chosen note is held, it is the greatest / least held note or the most recently pressed one (the last element: push_held appends) *)
Theorem C04_choose_next_note_spec : forall p held, held <> [] ->
  let n := choose_next_note p held in
  In n held /\
  (p = PHigh -> Forall (fun x => x <= n) held) /\
  (p = PLow -> Forall (fun x => n <= x) held) /\
  (p = PLast -> n = last held 0 /\ exists older, held = older ++ [n]).
Proof. exact choose_next_note_spec. Qed.

(** that characterisation determines the note *)
Theorem C04_selected_unique : forall p held n n',
  selected p held n -> selected p held n' -> n = n'.
Proof. exact selected_unique. Qed.

(** hence, after every note message of a history within capacity that leaves a note outstanding, note_num() is the greatest / least / most recent outstanding note (held_spec is the model-independent list of outstanding notes) *)
Theorem C04_note_after_note_msg : forall ch h o,
  let c := Z.min ch 15 in
  within_capacity c (h ++ [o]) ->
  is_note_msg c o = true ->
  held_spec c (h ++ [o]) <> [] ->
  let n := r_note (mrun ch (h ++ [o])) in
  let held := held_spec c (h ++ [o]) in
  In n held /\
  (prio_spec_rev (rev h) = PHigh -> Forall (fun x => x <= n) held) /\
  (prio_spec_rev (rev h) = PLow -> Forall (fun x => n <= x) held) /\
  (prio_spec_rev (rev h) = PLast -> exists older, held = older ++ [n]).
Proof. exact C04_note_after_note_msg. Qed.

(** and it stays that note until the next note message that leaves a note outstanding (so it is kept after everything is released) *)
Theorem C04_note_selected : forall ch h1 o h2,
  let c := Z.min ch 15 in
  within_capacity c (h1 ++ o :: h2) ->
  is_note_msg c o = true ->
  held_spec c (h1 ++ [o]) <> [] ->
  (forall h3 o' h4, h2 = h3 ++ o' :: h4 -> is_note_msg c o' = true ->
                    held_spec c (h1 ++ o :: h3 ++ [o']) = []) ->
  selected (prio_spec_rev (rev h1)) (held_spec c (h1 ++ [o])) (r_note (mrun ch (h1 ++ o :: h2))).
Proof. exact C04_note_selected. Qed.

(** the example history is within capacity *)
Theorem C04_example_within_capacity :
  within_capacity 3
    [OMsg (MNoteOn 3 60 100); OMsg (MNoteOn 3 64 90); OMsg (MNoteOn 3 60 80);
     OMsg (MNoteOff 3 61 0); OSetPrio PLow; OMsg (MNoteOn 3 64 0);
     OMsg (MNoteOn 2 30 99)].
Proof. exact C04_example_within_capacity. Qed.

(** non-vacuity of C04_note_selected with later messages: the note is kept after everything is released *)
Theorem C04_ex_note_kept_after_release :
  selected PLast [60]
    (r_note (mrun 0 [OMsg (MNoteOn 0 60 100); OMsg (MNoteOn 0 64 90);
                     OMsg (MNoteOff 0 64 0); OMsg (MNoteOff 0 60 0)])).
Proof. exact ex_note_kept_after_release_long_selected. Qed.

Print Assumptions C04_held.
Print Assumptions C04_gate.
Print Assumptions C04_note.
Print Assumptions C04_velocity.
Print Assumptions C04_capacity_is_32.
Print Assumptions C04_choose_next_note_spec.
Print Assumptions C04_selected_unique.
Print Assumptions C04_note_after_note_msg.
Print Assumptions C04_note_selected.
Print Assumptions C04_example_within_capacity.
Print Assumptions C04_ex_note_kept_after_release.
