(** C04 — MIDI gate and note number track the keys that are held.
    This file contains only the property theorems; proofs are in Proofs/MidiProofs.v. *)
From Coq Require Import ZArith Bool List.
Import ListNotations.
From SU Require Import F32.
From SU.gen Require Import Consts.
From SU.Model Require Import Midi.
From SU.Spec Require Import MidiSpec.
From SU.Proofs Require Import MidiProofs.
Open Scope Z_scope.

(** the held-note list of the receiver is the list of outstanding note-ons, for every
    history of messages / polls / mode changes in which at most 32 are outstanding at once *)
Theorem C04_held : forall ch h,
  within_capacity (Z.min ch 15) h ->
  r_held (mrun ch h) = held_spec (Z.min ch 15) h.
Proof. exact held_refines. Qed.

Theorem C04_gate : forall ch h,
  within_capacity (Z.min ch 15) h ->
  r_gate (mrun ch h) = gate_spec (Z.min ch 15) h.
Proof. exact gate_refines. Qed.

Theorem C04_note : forall ch h,
  within_capacity (Z.min ch 15) h ->
  r_note (mrun ch h) = note_spec (Z.min ch 15) h.
Proof. exact note_refines. Qed.

Theorem C04_velocity : forall ch h,
  r_velocity (mrun ch h) = velocity_spec (Z.min ch 15) h.
Proof. exact velocity_refines. Qed.

(** the capacity in the statement is the literal 32 *)
Theorem C04_capacity_is_32 : HELD_DOWN_NOTE_BUFFER_LEN = 32.
Proof. reflexivity. Qed.

(** non-vacuity: a history with duplicates, a stray note-off and a zero-velocity note-on *)
Example C04_example :
  let h := [OMsg (MNoteOn 3 60 100); OMsg (MNoteOn 3 64 90); OMsg (MNoteOn 3 60 80);
            OMsg (MNoteOff 3 61 0); OSetPrio PLow; OMsg (MNoteOn 3 64 0);
            OMsg (MNoteOn 2 30 99)] in
  held_spec 3 h = [60; 60] /\ r_held (mrun 3 h) = [60; 60] /\ r_note (mrun 3 h) = 60
  /\ r_gate (mrun 3 h) = true.
Proof. vm_compute. repeat split; reflexivity. Qed.

Print Assumptions C04_held.
Print Assumptions C04_gate.
Print Assumptions C04_note.
Print Assumptions C04_velocity.
Print Assumptions C04_capacity_is_32.
