(** C10 — LFO waveforms have the documented range, shape and phase relations.
    Only the property theorems; proofs are in Proofs/LfoProofs.v (exact shapes, ranges)
    and Proofs/SineProofs.v (closeness to the real sine). *)
From Coq Require Import ZArith Bool List Reals.
Import ListNotations.
From SU Require Import F32 F32Lemmas.
From SU.Model Require Import PhaseAcc Lfo.
From SU.Model Require Import Utils.
From SU.Proofs Require Import LfoProofs SineProofs UtilsProofs.
Open Scope R_scope.

(** every phase the oscillator can reach is a 24-bit counter value: for every history of
    tick / set_frequency / set_phase / reset with arbitrary f32 arguments *)
Theorem C10_acc_range : forall fs ops, (0 <= pa_acc (lfo_run fs ops) < 16777216)%Z.
Proof. exact lfo_acc_range. Qed.

(** phase = acc / 2^24 *)
Definition ph (l : lfo) : R := IZR (pa_acc l) / 16777216.

(** up-saw: exactly 2*phase - 1 *)
Theorem C10_upsaw : forall l, (0 <= pa_acc l < 16777216)%Z ->
  fin (lfo_get l UpSaw) /\ R32 (lfo_get l UpSaw) = 2 * ph l - 1.
Proof. exact upsaw_exact. Qed.

(** down-saw: the exact negation *)
Theorem C10_downsaw : forall l, (0 <= pa_acc l < 16777216)%Z ->
  lfo_get l DownSaw = fneg (lfo_get l UpSaw) /\ R32 (lfo_get l DownSaw) = 1 - 2 * ph l.
Proof. exact downsaw_exact. Qed.

(** square: +1 in the first half cycle, -1 in the second *)
Theorem C10_square : forall l, (0 <= pa_acc l < 16777216)%Z ->
  lfo_get l Square = if (pa_acc l <? 8388608)%Z then f_1 else f_m1.
Proof. exact square_exact. Qed.

(** triangle: the exact piecewise-linear wave, 0 at phase 0, +1 at 1/4, -1 at 3/4 *)
Theorem C10_triangle : forall l, (0 <= pa_acc l < 16777216)%Z ->
  fin (lfo_get l Triangle) /\
  R32 (lfo_get l Triangle) =
    if (pa_acc l <? 4194304)%Z then 4 * ph l
    else if (pa_acc l <? 12582912)%Z then 2 - 4 * ph l
    else 4 * ph l - 4.
Proof. exact triangle_exact. Qed.

(** all five waveforms lie in [-1, +1] at every reachable phase *)
Theorem C10_range : forall l w, (0 <= pa_acc l < 16777216)%Z ->
  fin (lfo_get l w) /\ -1 <= R32 (lfo_get l w) <= 1.
Proof. exact lfo_range. Qed.

(** the sine is within 0.0125 of sin(2*pi*phase) *)
Theorem C10_sine_close : forall l, (0 <= pa_acc l < 16777216)%Z ->
  Rabs (R32 (lfo_get l Sine) - sin (2 * PI * ph l)) <= 0.0125.
Proof. exact sine_close. Qed.

(** reading a waveform is a pure function of the state: [lfo_get : lfo -> shape -> f32]
    returns no new state (in Rust: [get(&self, ..)]), so reading one shape can not
    disturb another; and table indexing can not go out of bounds *)
Theorem C10_get_no_panic : forall l, (0 <= pa_acc l < 16777216)%Z -> lfo_get_ok l = true.
Proof. exact lfo_get_no_panic. Qed.

(** the table index uses the top ilog_2(1024) = 10 bits of the counter: the Rust [ilog_2] is a
    halving loop; the loop (with fuel 64, enough for any usize) computes [Z.log2], which is what
    the model uses, and yields 10 for the table size *)
Theorem C10_index_bits : (forall x, (0 <= x < 2 ^ 64)%Z -> ilog_2_loop 64 x 0 = ilog_2 x) /\
  ilog_2 1024 = 10%Z /\ LIDX = 10%Z.
Proof. split; [exact ilog_2_loop_correct | split; [exact ilog_2_1024 | vm_compute; reflexivity]]. Qed.

Print Assumptions C10_acc_range.
Print Assumptions C10_index_bits.
Print Assumptions C10_upsaw.
Print Assumptions C10_downsaw.
Print Assumptions C10_square.
Print Assumptions C10_triangle.
Print Assumptions C10_range.
Print Assumptions C10_sine_close.
Print Assumptions C10_get_no_panic.
