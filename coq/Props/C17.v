(** C17 — No operation panics, overflows or hangs for any in-range argument.
    Only the property theorems; proofs are in Proofs/NoPanicProofs.v.

    Every panic site of a build with overflow checks and debug assertions (u32/usize
    overflow, slice/table index out of bounds, `unwrap` on `Err`, `debug_assert!` of the
    dependencies) is a boolean guard `*_ok` next to the corresponding model function
    (None for the glide processor); the correspondence check compares these guards with
    the PANIC behaviour of the real debug build.  "Fails to return": every model function
    is a structurally recursive Gallina function, i.e. total; the Rust loops they mirror
    are `for` loops over fixed ranges and iterator chains over finite buffers. *)
From Coq Require Import ZArith Bool List Reals.
Import ListNotations.
From Flocq Require Import IEEE754.BinarySingleNaN.
From SU Require Import F32 F32Lemmas.
From SU.Model Require Import PhaseAcc Adsr Lfo Quantizer Midi Glide Ribbon.
From SU.Spec Require Import AdsrSpec QuantSpec MidiSpec RibbonSpec RunSpec.
From SU.Proofs Require Import NoPanicProofs.
From SU.Proofs Require Import LivenessProofs.
Open Scope R_scope.

(** envelope: sample rate in [100 Hz, 192 kHz], times and sustain levels of ANY f32 value *)
Theorem C17_adsr : forall fs ops, fs_ok fs ->
  steps_ok adsr_step_ok adsr_step (adsr_new fs) ops = true.
Proof. exact adsr_no_panic. Qed.

(** LFO: frequencies in [0, sample rate], phases of any value *)
Theorem C17_lfo : forall fs ops, fs_ok fs -> Forall (lfo_op_ok fs) ops ->
  steps_ok lfo_step_ok lfo_step (lfo_new fs) ops = true /\
  lfo_get_ok (lfo_run fs ops) = true.
Proof. exact lfo_no_panic. Qed.

(** quantizer: inputs of any value including NaN and infinities, any u8 notes *)
Theorem C17_quantizer : forall ops, wf_ops ops ->
  steps_ok quant_step_ok quant_step quant_new ops = true.
Proof. exact quant_run_no_panic. Qed.

(** MIDI: arbitrary bytes, polls and mode changes *)
Theorem C17_midi : forall ch ops, Forall rx_op_ok ops ->
  steps_ok rx_step_ok (fun r o => fst (rx_step r o)) (rx_new ch) ops = true.
Proof. exact midi_no_panic. Qed.

(** glide: sample rate in [100 Hz, 192 kHz], times >= 0 (0 included), any inputs *)
Theorem C17_glide : forall fs ops, fs_ok fs -> Forall glide_op_ok ops ->
  exists g, glide_run (glide_new fs) ops = Some g.
Proof. exact glide_no_panic. Qed.

(** ribbon: buffer sized by the provided helper for an integer sample rate in
    [100 Hz, 192 kHz], any samples, polls of the edge flags anywhere *)
Theorem C17_ribbon : forall (fs : Z) sp dr pu h,
  (100 <= fs <= 192000)%Z ->
  sample_rate_to_capacity_ok fs = true /\
  let cap := Z.to_nat (sample_rate_to_capacity fs) in
  ribbon_new_ok cap (of_Z fs) = true /\
  steps_ok ribbon_step_ok (fun r o => fst (ribbon_step r o)) (ribbon_new cap (of_Z fs) sp dr pu) h = true.
Proof. exact ribbon_no_panic. Qed.

(** liveness: every envelope started by a gate-on reaches its sustain level, and every
    release reaches rest (exactly 0.0), after finitely many ticks (at most 2^23 + 2 resp.
    2^22 + 1) *)
Theorem C17_reaches_sustain : forall fs ops, fs_ok fs ->
  let s := adsr_step (adsr_run fs ops) AGateOn in
  exists n, (Z.of_nat n <= 8388610)%Z /\
    let s' := fold_left adsr_step (repeat ATick n) s in
    a_state s' = Sustain /\ R32 (a_value s') = R32 (a_sustain s').
Proof. exact envelope_reaches_sustain. Qed.

Theorem C17_reaches_rest : forall fs ops, fs_ok fs ->
  let s := adsr_step (adsr_run fs ops) AGateOff in
  a_state s = Release ->
  exists n, (Z.of_nat n <= 4194305)%Z /\
    let s' := fold_left adsr_step (repeat ATick n) s in
    a_state s' = AtRest /\ R32 (a_value s') = 0.
Proof. exact envelope_reaches_rest. Qed.

(** liveness under arbitrary call orders: ticks interleaved with any parameter changes (any f32 arguments); every tick of a timed phase uses up at least one of a bounded number of remaining ticks, whatever the times are changed to *)
Open Scope Z_scope.
Theorem C17_liveness_general : forall s mid, InvC s -> fs_ok (pa_fs (a_pa s)) ->
  Forall no_gate mid -> ticks_left s <= count_ticks mid ->
  a_state (fold_left adsr_step mid s) = final_phase (a_state s).
Proof. exact liveness_general. Qed.
Close Scope Z_scope.

(** a timed phase always ends within 2^22 ticks *)
Open Scope Z_scope.
Theorem C17_timed_phase_changes : forall s mid, InvC s -> fs_ok (pa_fs (a_pa s)) ->
  Forall no_gate mid -> 4194304 <= count_ticks mid -> timed (a_state s) = true ->
  a_state (fold_left adsr_step mid s) <> a_state s.
Proof. exact timed_phase_changes. Qed.
Close Scope Z_scope.

(** gate-on, then any gate-free calls containing 8388610 ticks: sustain, at the sustain level (provided the sustain level was not changed after the last tick) *)
Open Scope Z_scope.
Theorem C17_reaches_sustain_interleaved : forall fs ops mid, fs_ok fs ->
  Forall no_gate mid -> 8388610 <= count_ticks mid -> sustain_settled mid ->
  let s' := fold_left adsr_step mid (adsr_step (adsr_run fs ops) AGateOn) in
  a_state s' = Sustain /\ (R32 (a_value s') = R32 (a_sustain s'))%R.
Proof. exact reaches_sustain_interleaved. Qed.
Close Scope Z_scope.

(** the phase part holds unconditionally *)
Open Scope Z_scope.
Theorem C17_reaches_sustain_interleaved_state : forall fs ops mid, fs_ok fs ->
  Forall no_gate mid -> 8388610 <= count_ticks mid ->
  a_state (fold_left adsr_step mid (adsr_step (adsr_run fs ops) AGateOn)) = Sustain.
Proof. exact reaches_sustain_interleaved_state. Qed.
Close Scope Z_scope.

(** the proviso is needed: the output is recomputed by ticks only, a sustain change after the last tick is not yet audible *)
Open Scope Z_scope.
Theorem C17_reaches_sustain_value_false :
  exists fs ops mid, fs_ok fs /\ Forall no_gate mid /\ 8388610 <= count_ticks mid /\
    let s' := fold_left adsr_step mid (adsr_step (adsr_run fs ops) AGateOn) in
    a_state s' = Sustain /\ R32 (a_value s') = 1%R /\ R32 (a_sustain s') = 0%R /\
    R32 (a_value s') <> R32 (a_sustain s').
Proof. exact reaches_sustain_interleaved_value_false. Qed.
Close Scope Z_scope.

(** gate-off, then any gate-free calls containing 4194305 ticks: at rest at 0.0 *)
Open Scope Z_scope.
Theorem C17_reaches_rest_interleaved : forall fs ops mid, fs_ok fs ->
  Forall no_gate mid -> 4194305 <= count_ticks mid ->
  let s' := fold_left adsr_step mid (adsr_step (adsr_run fs ops) AGateOff) in
  a_state s' = AtRest /\ (R32 (a_value s') = 0)%R.
Proof. exact reaches_rest_interleaved. Qed.
Close Scope Z_scope.

Print Assumptions C17_adsr.
Print Assumptions C17_lfo.
Print Assumptions C17_quantizer.
Print Assumptions C17_midi.
Print Assumptions C17_glide.
Print Assumptions C17_ribbon.
Print Assumptions C17_reaches_sustain.
Print Assumptions C17_reaches_rest.
Print Assumptions C17_liveness_general.
Print Assumptions C17_timed_phase_changes.
Print Assumptions C17_reaches_sustain_interleaved.
Print Assumptions C17_reaches_sustain_interleaved_state.
Print Assumptions C17_reaches_sustain_value_false.
Print Assumptions C17_reaches_rest_interleaved.
