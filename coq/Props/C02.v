(** C02 — ADSR phases advance in order and last the configured time.
    Only the property theorems; proofs are in Proofs/AdsrClockProofs.v. *)
From Coq Require Import ZArith Bool List Reals.
Import ListNotations.
From SU Require Import F32 F32Lemmas.
From SU.Model Require Import PhaseAcc Adsr.
From SU.Spec Require Import AdsrSpec.
From SU.Proofs Require Import AdsrClockProofs.
From SU.Proofs Require Import AdsrKillers.
From SU.Proofs Require Import AdsrTrace2Proofs.
From Flocq Require Import Core.
Open Scope R_scope.

(** every reachable state satisfies the clock invariant (any sample rate, any f32 arguments) *)
Theorem C02_invariant : forall fs ops, InvC (adsr_run fs ops).
Proof. exact adsr_inv_clock. Qed.

(** gate-on: an attack from every phase except attack itself, where it changes nothing *)
Theorem C02_gate_on : forall s,
  a_state (adsr_step s AGateOn) = Attack /\
  (a_state s = Attack -> adsr_step s AGateOn = s) /\
  (a_state s <> Attack -> pa_acc (a_pa (adsr_step s AGateOn)) = 0%Z).
Proof. exact gate_on_spec. Qed.

(** gate-off: a release from attack, decay or sustain; ignored during release and at rest *)
Theorem C02_gate_off : forall s,
  match a_state s with
  | Attack | Decay | Sustain =>
      a_state (adsr_step s AGateOff) = Release /\ pa_acc (a_pa (adsr_step s AGateOff)) = 0%Z
  | Release | AtRest => adsr_step s AGateOff = s
  end.
Proof. exact gate_off_spec. Qed.

(** parameter changes never change the phase nor the position inside it *)
Theorem C02_set_input : forall s o,
  match o with ATick | AGateOn | AGateOff => False | _ => True end ->
  a_state (adsr_step s o) = a_state s /\ a_pa (adsr_step s o) = a_pa s.
Proof. exact set_input_spec. Qed.

(** a tick: sustain and rest persist; a timed phase adds the increment of the time in
    force NOW to the position and moves to the next phase (attack->decay->sustain,
    release->rest), resetting the position, exactly when the sum reaches 2^24 *)
Theorem C02_tick : forall s, InvC s -> (adsr_inc s <= 4278190080)%Z ->
  let s' := adsr_step s ATick in
  if timed (a_state s) then
    if (pa_acc (a_pa s) + adsr_inc s <? 16777216)%Z
    then a_state s' = a_state s /\ pa_acc (a_pa s') = (pa_acc (a_pa s) + adsr_inc s)%Z
    else a_state s' = next_phase (a_state s) /\ pa_acc (a_pa s') = 0%Z
  else a_state s' = a_state s /\ pa_acc (a_pa s') = 0%Z.
Proof. exact tick_spec. Qed.

(** the increment for a legal sample rate and a (clamped) time: within f32 rounding of
    2^24 / (T * fs), at least 4 (so every phase ends), small enough for the u32 counter *)
Theorem C02_increment : forall fs t, fs_ok fs -> fin_in t (R32 MIN_TIME) (R32 MAX_TIME) ->
  let X := 16777216 / (R32 t * R32 fs) in
  X * (1 - / 8388608) - 1 < IZR (inc_of fs t) <= X * (1 + / 4194304) /\
  (4 <= inc_of fs t <= 4278190080)%Z.
Proof. exact increment_bounds. Qed.

(** a phase with a constant time setting lasts exactly [ticks_for inc] ticks: not the
    tick before, and that many *)
Theorem C02_phase_length : forall s n, InvC s -> fs_ok (pa_fs (a_pa s)) ->
  timed (a_state s) = true -> pa_acc (a_pa s) = 0%Z ->
  let inc := adsr_inc s in
  (0 <= Z.of_nat n < ticks_for inc)%Z ->
  let s' := fold_left adsr_step (repeat ATick n) s in
  a_state s' = a_state s /\ pa_acc (a_pa s') = (Z.of_nat n * inc)%Z /\
  ((Z.of_nat n + 1 = ticks_for inc)%Z ->
   a_state (adsr_step s' ATick) = next_phase (a_state s)).
Proof. exact phase_length_exact. Qed.

(** ... which is never earlier than N = T*fs ticks (up to f32 rounding of the increment:
    N(1 - 2^-22)), at least one tick, and later only by the counter resolution *)
Theorem C02_phase_duration : forall fs t, fs_ok fs -> fin_in t (R32 MIN_TIME) (R32 MAX_TIME) ->
  let N := R32 t * R32 fs in
  let n := IZR (ticks_for (inc_of fs t)) in
  1 <= n /\ N * (1 - / 4194304) <= n /\ n <= N / (1 - N / 16777216) + 2.
Proof. exact phase_duration. Qed.

(** liveness (used by C17): from any reachable state with a legal sample rate, gate-on
    followed by ticks reaches sustain, and gate-off followed by ticks reaches rest, within
    2^22+1 ticks per phase *)
Theorem C02_reaches_sustain : forall s, InvC s -> fs_ok (pa_fs (a_pa s)) -> a_state s = Attack ->
  exists n, (Z.of_nat n <= 8388610)%Z /\
    a_state (fold_left adsr_step (repeat ATick n) s) = Sustain.
Proof. exact reaches_sustain. Qed.

Theorem C02_reaches_rest : forall s, InvC s -> fs_ok (pa_fs (a_pa s)) -> a_state s = Release ->
  exists n, (Z.of_nat n <= 4194305)%Z /\
    a_state (fold_left adsr_step (repeat ATick n) s) = AtRest.
Proof. exact reaches_rest. Qed.

(** the configuration the existing tests use: 1 kHz, 0.1 s => 101 ticks *)
Example C02_example : ticks_for (inc_of (of_Z 1000) (time_from (of_bits 1036831949))) = 101%Z.
Proof. vm_compute. reflexivity. Qed.

(** which parameter an operation writes and which it leaves alone (every other C02 theorem is stated through the model's own period_of) *)
Theorem C02_params_frame : forall s o,
  let s' := adsr_step s o in
  a_attack s' = match o with ASetAttack x => time_from x | _ => a_attack s end /\
  a_decay s' = match o with ASetDecay x => time_from x | _ => a_decay s end /\
  a_sustain s' = match o with ASetSustain x => sustain_from x | _ => a_sustain s end /\
  a_release s' = match o with ASetRelease x => time_from x | _ => a_release s end /\
  pa_fs (a_pa s') = pa_fs (a_pa s).
Proof. exact adsr_params_frame. Qed.

(** parameter changes never touch the latched levels or the output *)
Theorem C02_set_levels_frame : forall s o,
  match o with ATick | AGateOn | AGateOff => False | _ => True end ->
  let s' := adsr_step s o in
  a_von s' = a_von s /\ a_voff s' = a_voff s /\ a_value s' = a_value s.
Proof. exact adsr_set_levels_frame. Qed.

(** a configured time or level persists until it is set again *)
Theorem C02_params_persist : forall ops s,
  let s' := fold_left adsr_step ops s in
  (Forall (fun o => ~ sets_attack o) ops -> a_attack s' = a_attack s) /\
  (Forall (fun o => ~ sets_decay o) ops -> a_decay s' = a_decay s) /\
  (Forall (fun o => ~ sets_sustain o) ops -> a_sustain s' = a_sustain s) /\
  (Forall (fun o => ~ sets_release o) ops -> a_release s' = a_release s).
Proof. exact adsr_params_persist. Qed.

(** the phase -> time link, pinned: attack uses the attack time, decay the decay time, release the release time *)
Theorem C02_period_of_is_phase_time : forall s, period_of s = phase_time s.
Proof. exact period_of_is_phase_time. Qed.

(** and the increment is computed from that time *)
Theorem C02_inc_is_phase_time : forall s,
  adsr_inc s = inc_of (pa_fs (a_pa s)) (phase_time s).
Proof. exact adsr_inc_is_phase_time. Qed.

(** the tick, phase by phase, with the times spelled out *)
Theorem C02_tick_explicit : forall s, InvC s -> fs_ok (pa_fs (a_pa s)) ->
  let s' := adsr_step s ATick in
  let fs := pa_fs (a_pa s) in
  let adv (t : f32) (nxt : phase) :=
    if (pa_acc (a_pa s) + inc_of fs t <? 16777216)%Z
    then a_state s' = a_state s /\ pa_acc (a_pa s') = (pa_acc (a_pa s) + inc_of fs t)%Z
    else a_state s' = nxt /\ pa_acc (a_pa s') = 0%Z in
  match a_state s with
  | Attack => adv (a_attack s) Decay
  | Decay => adv (a_decay s) Sustain
  | Release => adv (a_release s) AtRest
  | Sustain => a_state s' = Sustain /\ pa_acc (a_pa s') = 0%Z
  | AtRest => a_state s' = AtRest /\ pa_acc (a_pa s') = 0%Z
  end.
Proof. exact tick_explicit. Qed.

(** a new envelope is at rest at 0.0 *)
Theorem C02_new_at_rest : forall fs,
  a_state (adsr_new fs) = AtRest /\ a_value (adsr_new fs) = f_0 /\
  pa_acc (a_pa (adsr_new fs)) = 0%Z /\ pa_fs (a_pa (adsr_new fs)) = fs.
Proof. exact new_at_rest. Qed.

(** and stays there until the first gate-on, whatever else is called *)
Theorem C02_rest_until_gate_on : forall fs ops, ~ In AGateOn ops ->
  a_state (adsr_run fs ops) = AtRest /\ R32 (a_value (adsr_run fs ops)) = 0.
Proof. exact rest_until_gate_on. Qed.

(** "never earlier", integer reading: a phase configured for N = T fs samples takes more than N - 1 ticks *)
Theorem C02_never_a_tick_early : forall fs t, fs_ok fs ->
  fin_in t (R32 MIN_TIME) (R32 MAX_TIME) ->
  let N := R32 t * R32 fs in
  let n := IZR (ticks_for (inc_of fs t)) in
  N - 1 < n.
Proof. exact C02_never_a_tick_early. Qed.

(** i.e. at least floor(N) ticks *)
Theorem C02_at_least_floor_N : forall fs t, fs_ok fs ->
  fin_in t (R32 MIN_TIME) (R32 MAX_TIME) ->
  (Zfloor (R32 t * R32 fs) <= ticks_for (inc_of fs t))%Z.
Proof. exact C02_at_least_floor_N. Qed.

(** the literal reading N <= n is false: 105140 Hz, T = 10457596 * 2^-19 s gives increment 8 and 2097152 ticks for N = 2097152.03 (the increment is truncated to an integer number of counter steps; about 11 000 (fs, T) pairs near N = 2^24/k behave so) *)
Theorem C02_never_earlier_literal_fails :
  fs_ok FS_W /\ fin_in T_W (R32 MIN_TIME) (R32 MAX_TIME) /\
  to_bits (time_from T_W) = to_bits T_W /\
  inc_of FS_W T_W = 8%Z /\ ticks_for (inc_of FS_W T_W) = 2097152%Z /\
  IZR (ticks_for (inc_of FS_W T_W)) < R32 T_W * R32 FS_W.
Proof. exact C02_never_earlier_literal_fails. Qed.

(** the same on an actual run of the model *)
Theorem C02_never_earlier_literal_fails_run :
  let s0 := adsr_run FS_W [ASetAttack T_W; AGateOn] in
  let k := Z.to_nat 2097151 in
  a_state s0 = Attack /\ pa_acc (a_pa s0) = 0%Z /\
  a_state (fold_left adsr_step (repeat ATick k) s0) = Attack /\
  a_state (adsr_step (fold_left adsr_step (repeat ATick k) s0) ATick) = Decay /\
  IZR (Z.of_nat k + 1) < R32 (a_attack s0) * R32 (pa_fs (a_pa s0)).
Proof. exact C02_never_earlier_literal_fails_run. Qed.

Print Assumptions C02_invariant.
Print Assumptions C02_gate_on.
Print Assumptions C02_gate_off.
Print Assumptions C02_set_input.
Print Assumptions C02_tick.
Print Assumptions C02_increment.
Print Assumptions C02_phase_length.
Print Assumptions C02_phase_duration.
Print Assumptions C02_reaches_sustain.
Print Assumptions C02_reaches_rest.
Print Assumptions C02_params_frame.
Print Assumptions C02_set_levels_frame.
Print Assumptions C02_params_persist.
Print Assumptions C02_period_of_is_phase_time.
Print Assumptions C02_inc_is_phase_time.
Print Assumptions C02_tick_explicit.
Print Assumptions C02_new_at_rest.
Print Assumptions C02_rest_until_gate_on.
Print Assumptions C02_never_a_tick_early.
Print Assumptions C02_at_least_floor_N.
Print Assumptions C02_never_earlier_literal_fails.
Print Assumptions C02_never_earlier_literal_fails_run.
