(** C01 — ADSR envelope stays in [0,1] and follows the attack/decay/sustain/release shape.
    Only the property theorems; proofs are in Proofs/AdsrLevelProofs.v (range, per-phase
    monotonicity, exact end levels) and Proofs/AdsrCurveProofs.v (fidelity to the RC curves). *)
From Coq Require Import ZArith Bool List Reals.
Import ListNotations.
From SU Require Import F32 F32Lemmas.
From SU.Model Require Import PhaseAcc Adsr.
From SU.Spec Require Import AdsrSpec.
From SU.Proofs Require Import AdsrLevelProofs AdsrCurveProofs.
Open Scope R_scope.

(** for every sample rate and every sequence of gate-on, gate-off, tick and parameter
    changes with arbitrary f32 arguments: the output and all latched levels are finite
    numbers in [0, 1] *)
Theorem C01_range : forall fs ops, InvV (adsr_run fs ops).
Proof. exact adsr_inv_level. Qed.

(** only a tick changes the output *)
Theorem C01_value_changes_only_on_tick : forall s o,
  o <> ATick -> a_value (adsr_step s o) = a_value s.
Proof. exact value_only_on_tick. Qed.

(** the output is in sync with the position after every tick, and stays so across gate
    events (the new segment starts exactly at the level currently being output) *)
Theorem C01_synced : forall s o, Inv s ->
  match o with
  | ATick => True
  | AGateOn | AGateOff => synced s
  | _ => False
  end -> synced (adsr_step s o).
Proof. exact synced_step. Qed.

(** attack: non-decreasing from tick to tick, and exactly 1.0 on the tick that ends it *)
Theorem C01_attack : forall s, Inv s -> (adsr_inc s <= 4278190080)%Z ->
  a_state s = Attack -> synced s ->
  let s' := adsr_step s ATick in
  (a_state s' = Attack -> R32 (a_value s) <= R32 (a_value s')) /\
  (a_state s' <> Attack -> a_state s' = Decay /\ R32 (a_value s') = 1).
Proof. exact attack_shape. Qed.

(** decay: non-increasing, never below the sustain level, exactly the sustain level on the
    tick that ends it *)
Theorem C01_decay : forall s, Inv s -> (adsr_inc s <= 4278190080)%Z ->
  a_state s = Decay -> synced s ->
  let s' := adsr_step s ATick in
  (a_state s' = Decay -> R32 (a_sustain s) <= R32 (a_value s') <= R32 (a_value s)) /\
  (a_state s' <> Decay -> a_state s' = Sustain /\ R32 (a_value s') = R32 (a_sustain s)).
Proof. exact decay_shape. Qed.

(** sustain: exactly the (current) sustain level on every tick *)
Theorem C01_sustain : forall s, Inv s -> a_state s = Sustain ->
  let s' := adsr_step s ATick in
  a_state s' = Sustain /\ R32 (a_value s') = R32 (a_sustain s).
Proof. exact sustain_shape. Qed.

(** release: non-increasing, exactly 0.0 on the tick that ends it *)
Theorem C01_release : forall s, Inv s -> (adsr_inc s <= 4278190080)%Z ->
  a_state s = Release -> synced s ->
  let s' := adsr_step s ATick in
  (a_state s' = Release -> 0 <= R32 (a_value s') <= R32 (a_value s)) /\
  (a_state s' <> Release -> a_state s' = AtRest /\ R32 (a_value s') = 0).
Proof. exact release_shape. Qed.

(** at rest: exactly 0.0 *)
Theorem C01_rest : forall s, Inv s -> a_state s = AtRest ->
  let s' := adsr_step s ATick in
  a_state s' = AtRest /\ R32 (a_value s') = 0.
Proof. exact rest_shape. Qed.

(** within a timed phase the output is within 0.5 % of full scale of the documented RC
    curve stretched between the level at which the phase started and its target *)
Theorem C01_curve_fidelity : forall s, Inv s -> timed (a_state s) = true -> synced s ->
  Rabs (R32 (a_value s) - ideal s) <= 0.005.
Proof. exact curve_fidelity. Qed.

Print Assumptions C01_range.
Print Assumptions C01_value_changes_only_on_tick.
Print Assumptions C01_synced.
Print Assumptions C01_attack.
Print Assumptions C01_decay.
Print Assumptions C01_sustain.
Print Assumptions C01_release.
Print Assumptions C01_rest.
Print Assumptions C01_curve_fidelity.
