(** C01 — ADSR envelope stays in [0,1] and follows the attack/decay/sustain/release shape.
    Only the property theorems; proofs are in Proofs/AdsrLevelProofs.v (range, per-phase
    monotonicity, exact end levels) and Proofs/AdsrCurveProofs.v (fidelity to the RC curves). *)
From Coq Require Import ZArith Bool List Reals.
Import ListNotations.
From SU Require Import F32 F32Lemmas.
From SU.Model Require Import PhaseAcc Adsr.
From SU.Spec Require Import AdsrSpec.
From SU.Proofs Require Import AdsrLevelProofs AdsrCurveProofs.
From SU.Proofs Require Import AdsrTraceProofs.
From SU.Proofs Require Import AdsrTrace2Proofs.
Open Scope R_scope.

(** for every sample rate and every sequence of gate-on, gate-off, tick and parameter
    changes with arbitrary f32 arguments: the output and all latched levels are finite
    numbers in [0, 1] *)
Theorem C01_range : forall fs ops, InvV (adsr_run fs ops).
Proof. exact adsr_inv_level. Qed.

(** only a tick changes the output *)
Theorem C01_value_changes_only_on_tick : forall s o,
  o <> ATick -> a_value (adsr_step s o) = a_value s.
Proof. exact value_only_on_tick. Qed.

(** the output is in sync with the position after every tick, and stays so across gate
    events (the new segment starts exactly at the level currently being output) *)
Theorem C01_synced : forall s o, Inv s ->
  match o with
  | ATick => True
  | AGateOn | AGateOff => synced s
  | _ => False
  end -> synced (adsr_step s o).
Proof. exact synced_step. Qed.

(** attack: non-decreasing from tick to tick, and exactly 1.0 on the tick that ends it *)
Theorem C01_attack : forall s, Inv s -> (adsr_inc s <= 4278190080)%Z ->
  a_state s = Attack -> synced s ->
  let s' := adsr_step s ATick in
  (a_state s' = Attack -> R32 (a_value s) <= R32 (a_value s')) /\
  (a_state s' <> Attack -> a_state s' = Decay /\ R32 (a_value s') = 1).
Proof. exact attack_shape. Qed.

(** decay: non-increasing, never below the sustain level, exactly the sustain level on the
    tick that ends it *)
Theorem C01_decay : forall s, Inv s -> (adsr_inc s <= 4278190080)%Z ->
  a_state s = Decay -> synced s ->
  let s' := adsr_step s ATick in
  (a_state s' = Decay -> R32 (a_sustain s) <= R32 (a_value s') <= R32 (a_value s)) /\
  (a_state s' <> Decay -> a_state s' = Sustain /\ R32 (a_value s') = R32 (a_sustain s)).
Proof. exact decay_shape. Qed.

(** sustain: exactly the (current) sustain level on every tick *)
Theorem C01_sustain : forall s, Inv s -> a_state s = Sustain ->
  let s' := adsr_step s ATick in
  a_state s' = Sustain /\ R32 (a_value s') = R32 (a_sustain s).
Proof. exact sustain_shape. Qed.

(** release: non-increasing, exactly 0.0 on the tick that ends it *)
Theorem C01_release : forall s, Inv s -> (adsr_inc s <= 4278190080)%Z ->
  a_state s = Release -> synced s ->
  let s' := adsr_step s ATick in
  (a_state s' = Release -> 0 <= R32 (a_value s') <= R32 (a_value s)) /\
  (a_state s' <> Release -> a_state s' = AtRest /\ R32 (a_value s') = 0).
Proof. exact release_shape. Qed.

(** at rest: exactly 0.0 *)
Theorem C01_rest : forall s, Inv s -> a_state s = AtRest ->
  let s' := adsr_step s ATick in
  a_state s' = AtRest /\ R32 (a_value s') = 0.
Proof. exact rest_shape. Qed.

(** within a timed phase the output is within 0.5 % of full scale of the documented RC
    curve stretched between the level at which the phase started and its target *)
Theorem C01_curve_fidelity : forall s, Inv s -> timed (a_state s) = true -> synced s ->
  Rabs (R32 (a_value s) - ideal s) <= 0.005.
Proof. exact curve_fidelity. Qed.

(** trace level: for every legal sample rate and EVERY history of operations (any f32 arguments), the next tick keeps the value in [0,1], never lowers it in attack (ending exactly at 1.0), keeps it at or above the sustain level in decay and never raises it there when the state is in sync (see C01_synced_reachable / C01_synced_run_last for when that is), holds the sustain level in sustain, never raises it in release (ending exactly at 0.0) *)
Theorem C01_trace_shape : forall fs ops, fs_ok fs ->
  let s := adsr_run fs ops in
  let s' := adsr_step s ATick in
  (fin (a_value s') /\ 0 <= R32 (a_value s') <= 1) /\
  (a_state s = Attack ->
     R32 (a_value s) <= R32 (a_value s') /\
     (a_state s' = Attack \/ (a_state s' = Decay /\ R32 (a_value s') = 1))) /\
  (a_state s = Decay ->
     R32 (a_sustain s) <= R32 (a_value s') /\
     (synced s -> R32 (a_value s') <= R32 (a_value s)) /\
     (a_state s' = Decay \/
      (a_state s' = Sustain /\ R32 (a_value s') = R32 (a_sustain s)))) /\
  (a_state s = Sustain ->
     a_state s' = Sustain /\ R32 (a_value s') = R32 (a_sustain s)) /\
  (a_state s = Release ->
     R32 (a_value s') <= R32 (a_value s) /\
     (a_state s' = Release \/ (a_state s' = AtRest /\ R32 (a_value s') = 0))) /\
  (a_state s = AtRest ->
     a_state s' = AtRest /\ R32 (a_value s') = 0).
Proof. exact C01_trace_shape. Qed.

(** decay is non-increasing at every tick of every history in which the sustain level has not been changed since the previous tick *)
Theorem C01_trace_decay_monotone : forall fs pre post, fs_ok fs ->
  Forall no_sustain_change post ->
  let s := adsr_run fs (pre ++ ATick :: post) in
  let s' := adsr_step s ATick in
  a_state s = Decay ->
  R32 (a_sustain s) <= R32 (a_value s') <= R32 (a_value s).
Proof. exact C01_trace_decay_monotone. Qed.

(** every reachable state outside decay and sustain is in sync (value = curve value of the counter) *)
Theorem C01_synced_reachable : forall fs ops,
  let s := adsr_run fs ops in
  a_state s <> Decay -> a_state s <> Sustain -> synced s.
Proof. exact synced_reachable. Qed.

(** in decay/sustain: a tick or gate event re-establishes sync; a time change keeps it (from an in-sync
    state); a sustain change loses it.  So the state is in sync unless the sustain level was changed since
    the last tick or gate event (see also C01_trace_decay_monotone) *)
Theorem C01_synced_run_last : forall fs ops o,
  match o with
  | ATick | AGateOn | AGateOff => True
  | ASetAttack _ | ASetDecay _ | ASetRelease _ => synced (adsr_run fs ops)
  | ASetSustain _ =>
      a_state (adsr_run fs ops) <> Decay /\ a_state (adsr_run fs ops) <> Sustain
  end -> synced (adsr_run fs (ops ++ [o])).
Proof. exact synced_run_last. Qed.

(** time changes never disturb the value *)
Theorem C01_synced_set_time : forall s t, synced s ->
  synced (adsr_step s (ASetAttack t)) /\
  synced (adsr_step s (ASetDecay t)) /\
  synced (adsr_step s (ASetRelease t)).
Proof. exact synced_set_time. Qed.

(** a sustain change outside decay/sustain does not disturb the value *)
Theorem C01_synced_set_sustain : forall s x, synced s ->
  a_state s <> Decay -> a_state s <> Sustain ->
  synced (adsr_step s (ASetSustain x)).
Proof. exact synced_set_sustain. Qed.

(** a sustain change in decay: the value is untouched by the call, the next tick is in sync again and at or above the new sustain level *)
Theorem C01_sustain_change_in_decay : forall s x, Inv s -> a_state s = Decay ->
  let s1 := adsr_step s (ASetSustain x) in
  let s2 := adsr_step s1 ATick in
  a_state s1 = Decay /\ a_value s1 = a_value s /\ a_sustain s1 = sustain_from x /\
  synced s2 /\
  (a_state s2 = Decay -> R32 (sustain_from x) <= R32 (a_value s2) <= 1) /\
  (a_state s2 <> Decay -> a_state s2 = Sustain /\ R32 (a_value s2) = R32 (sustain_from x)).
Proof. exact sustain_change_in_decay. Qed.

(** a sustain change in sustain: the next tick moves the value to the new level *)
Theorem C01_sustain_change_in_sustain : forall s x, Inv s -> a_state s = Sustain ->
  let s1 := adsr_step s (ASetSustain x) in
  let s2 := adsr_step s1 ATick in
  a_state s1 = Sustain /\ a_value s1 = a_value s /\ a_sustain s1 = sustain_from x /\
  (synced s1 <-> R32 (a_value s) = R32 (sustain_from x)) /\
  a_state s2 = Sustain /\ R32 (a_value s2) = R32 (sustain_from x) /\ synced s2.
Proof. exact sustain_change_in_sustain. Qed.

(** witness for the reading "monotone for a fixed sustain level": raising the sustain level in mid-decay makes the next tick go UP (here from 0.339 to 1.0); no implementation can be non-increasing down to a level that was just raised above the output *)
Theorem C01_decay_sustain_raise_jumps_up :
  let s := adsr_run FS1k (raise_pre ++ [ATick]) in
  let s1 := adsr_step s (ASetSustain f_1) in
  let s2 := adsr_step s1 ATick in
  a_state s = Decay /\ Inv s /\ synced s /\
  a_state s1 = Decay /\ ~ synced s1 /\ R32 (a_value s1) < R32 (a_sustain s1) /\
  a_state s2 = Decay /\
  R32 (a_value s) < 0.34 /\ R32 (a_value s2) = 1 /\ R32 (a_value s) < R32 (a_value s2).
Proof. exact decay_sustain_raise_jumps_up. Qed.

(** in sync, the decay value lies between the sustain level and 1 *)
Theorem C01_decay_above_sustain : forall s, Inv s -> a_state s = Decay -> synced s ->
  R32 (a_sustain s) <= R32 (a_value s) <= 1.
Proof. exact decay_above_sustain. Qed.

(** in sync, the attack value lies between its start level and 1 *)
Theorem C01_attack_above_start : forall s, Inv s -> a_state s = Attack -> synced s ->
  R32 (a_von s) <= R32 (a_value s) <= 1.
Proof. exact attack_above_start. Qed.

(** in sync, the release value lies between 0 and its start level *)
Theorem C01_release_below_start : forall s, Inv s -> a_state s = Release -> synced s ->
  0 <= R32 (a_value s) <= R32 (a_voff s).
Proof. exact release_below_start. Qed.

(** trace level fidelity: right after any tick of any history the value is within 0.005 (full scale) of the documented RC curve and within 0.45% of the segment span + 6*2^-21 *)
Theorem C01_trace_fidelity : forall fs ops,
  let s := adsr_run fs (ops ++ [ATick]) in
  timed (a_state s) = true ->
  Rabs (R32 (a_value s) - ideal s) <= 0.005 /\
  Rabs (R32 (a_value s) - ideal s) <= 45 / 10000 * span s + 6 / 2097152.
Proof. exact C01_trace_fidelity. Qed.

(** hence within 0.5% of the segment span whenever the span is at least 0.006 *)
Theorem C01_trace_fidelity_rel : forall fs ops,
  let s := adsr_run fs (ops ++ [ATick]) in
  timed (a_state s) = true -> 0.006 <= span s ->
  Rabs (R32 (a_value s) - ideal s) <= 0.005 * span s.
Proof. exact C01_trace_fidelity_rel. Qed.

(** witness that the absolute term is needed: with a span of one f32 ulp (sustain = 1 - 2^-24) in this reachable state the output is at least 10% of the span away from the curve (11.9% computed) *)
Theorem C01_span_relative_fidelity_fails :
  let s := adsr_run FS1k (tiny_pre ++ [ATick]) in
  a_state s = Decay /\ Inv s /\ synced s /\ span s = / 16777216 /\
  0.1 * span s <= Rabs (R32 (a_value s) - ideal s).
Proof. exact span_relative_fidelity_fails. Qed.

(** non-vacuity: a reachable mid-cell attack state satisfying every hypothesis used above, strictly rising on the next tick *)
Theorem C01_ex_attack_state :
  let s := adsr_run FS1k [ASetAttack T100ms; AGateOn; ATick; ATick; ATick] in
  a_state s = Attack /\ pa_acc (a_pa s) = 503316%Z /\
  Z.land (pa_acc (a_pa s)) 16383 = 11796%Z /\ adsr_inc s = 167772%Z /\
  to_bits (a_value s) = Some 1029328322%Z /\
  Inv s /\ synced s /\ (adsr_inc s <= 4278190080)%Z /\
  a_state (adsr_step s ATick) = Attack /\
  R32 (a_value s) < R32 (a_value (adsr_step s ATick)).
Proof. exact ex_attack_state. Qed.

(** non-vacuity: decay *)
Theorem C01_ex_decay_state :
  let s := adsr_run FS1k [ASetDecay T100ms; ASetSustain f_half; AGateOn;
                          ATick; ATick; ATick; ATick; ATick] in
  a_state s = Decay /\ pa_acc (a_pa s) = 503316%Z /\
  Z.land (pa_acc (a_pa s)) 16383 = 11796%Z /\ adsr_inc s = 167772%Z /\
  to_bits (a_value s) = Some 1064386062%Z /\ to_bits (a_sustain s) = Some 1056964608%Z /\
  Inv s /\ synced s /\ (adsr_inc s <= 4278190080)%Z /\
  a_state (adsr_step s ATick) = Decay /\
  R32 (a_value (adsr_step s ATick)) < R32 (a_value s).
Proof. exact ex_decay_state. Qed.

(** non-vacuity: sustain (the counter is 0 in every reachable sustain state) *)
Theorem C01_ex_sustain_state :
  let s := adsr_run FS1k [ASetSustain f_half; AGateOn; ATick; ATick; ATick; ATick; ATick] in
  a_state s = Sustain /\ pa_acc (a_pa s) = 0%Z /\
  to_bits (a_value s) = Some 1056964608%Z /\ to_bits (a_sustain s) = Some 1056964608%Z /\
  Inv s /\ synced s /\ (adsr_inc s <= 4278190080)%Z /\
  a_state (adsr_step s ATick) = Sustain /\
  R32 (a_value (adsr_step s ATick)) = R32 (a_sustain s).
Proof. exact ex_sustain_state. Qed.

(** non-vacuity: release *)
Theorem C01_ex_release_state :
  let s := adsr_run FS1k [ASetRelease T100ms; ASetSustain f_half; AGateOn;
                          ATick; ATick; ATick; AGateOff; ATick; ATick; ATick] in
  a_state s = Release /\ pa_acc (a_pa s) = 503316%Z /\
  Z.land (pa_acc (a_pa s)) 16383 = 11796%Z /\ adsr_inc s = 167772%Z /\
  to_bits (a_value s) = Some 1055030299%Z /\ to_bits (a_voff s) = Some 1056964608%Z /\
  Inv s /\ synced s /\ (adsr_inc s <= 4278190080)%Z /\
  a_state (adsr_step s ATick) = Release /\
  R32 (a_value (adsr_step s ATick)) < R32 (a_value s).
Proof. exact ex_release_state. Qed.

(** "the level at which the phase started": a gate-on that starts an attack latches the current output as the attack start level and changes nothing audible *)
Theorem C01_gate_on_latches : forall s,
  a_von (adsr_step s AGateOn)
    = match a_state s with Attack => a_von s | _ => a_value s end /\
  a_voff (adsr_step s AGateOn) = a_voff s /\
  a_value (adsr_step s AGateOn) = a_value s.
Proof. exact gate_on_latches. Qed.

(** a gate-off that starts a release latches the current output as the release start level *)
Theorem C01_gate_off_latches : forall s,
  a_voff (adsr_step s AGateOff)
    = match a_state s with Release | AtRest => a_voff s | _ => a_value s end /\
  a_von (adsr_step s AGateOff) = a_von s /\
  a_value (adsr_step s AGateOff) = a_value s.
Proof. exact gate_off_latches. Qed.

(** ticks never move the latched levels *)
Theorem C01_tick_keeps_levels : forall s,
  a_von (adsr_step s ATick) = a_von s /\ a_voff (adsr_step s ATick) = a_voff s.
Proof. exact tick_keeps_levels. Qed.

(** so throughout an attack the start level is the output at the gate-on *)
Theorem C01_attack_start_level : forall s ops, a_state s <> Attack -> ~ In AGateOn ops ->
  a_von (fold_left adsr_step (AGateOn :: ops) s) = a_value s.
Proof. exact attack_start_level. Qed.

(** and throughout a release the output at the gate-off *)
Theorem C01_release_start_level : forall s ops,
  a_state s <> Release -> a_state s <> AtRest -> ~ In AGateOff ops ->
  a_voff (fold_left adsr_step (AGateOff :: ops) s) = a_value s.
Proof. exact release_start_level. Qed.

(** fidelity for EVERY reachable attack / release state (and every in-sync decay state), including the first sample after a gate event *)
Theorem C01_trace_fidelity_any : forall fs ops,
  let s := adsr_run fs ops in
  timed (a_state s) = true -> (a_state s = Decay -> synced s) ->
  Rabs (R32 (a_value s) - ideal s) <= 0.005 /\
  Rabs (R32 (a_value s) - ideal s) <= 45 / 10000 * span s + 6 / 2097152.
Proof. exact C01_trace_fidelity_any. Qed.

Print Assumptions C01_range.
Print Assumptions C01_value_changes_only_on_tick.
Print Assumptions C01_synced.
Print Assumptions C01_attack.
Print Assumptions C01_decay.
Print Assumptions C01_sustain.
Print Assumptions C01_release.
Print Assumptions C01_rest.
Print Assumptions C01_curve_fidelity.
Print Assumptions C01_trace_shape.
Print Assumptions C01_trace_decay_monotone.
Print Assumptions C01_synced_reachable.
Print Assumptions C01_synced_run_last.
Print Assumptions C01_synced_set_time.
Print Assumptions C01_synced_set_sustain.
Print Assumptions C01_sustain_change_in_decay.
Print Assumptions C01_sustain_change_in_sustain.
Print Assumptions C01_decay_sustain_raise_jumps_up.
Print Assumptions C01_decay_above_sustain.
Print Assumptions C01_attack_above_start.
Print Assumptions C01_release_below_start.
Print Assumptions C01_trace_fidelity.
Print Assumptions C01_trace_fidelity_rel.
Print Assumptions C01_span_relative_fidelity_fails.
Print Assumptions C01_ex_attack_state.
Print Assumptions C01_ex_decay_state.
Print Assumptions C01_ex_sustain_state.
Print Assumptions C01_ex_release_state.
Print Assumptions C01_gate_on_latches.
Print Assumptions C01_gate_off_latches.
Print Assumptions C01_tick_keeps_levels.
Print Assumptions C01_attack_start_level.
Print Assumptions C01_release_start_level.
Print Assumptions C01_trace_fidelity_any.
