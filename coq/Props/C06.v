(** C06 — MIDI byte stream framing.  Only the property theorems; proofs are in
    Proofs/MidiParserProofs.v. *)
From Coq Require Import ZArith Bool List.
Import ListNotations.
From SU Require Import F32.
From SU.Model Require Import Midi.
From SU.Spec Require Import MidiSpec.
From SU.Proofs Require Import MidiParserProofs MidiLiftProofs.
From SU.Proofs Require Import MidiExtraProofs.
Open Scope Z_scope.

(** the messages the byte-at-a-time parser completes are exactly those of the
    reference decoder (running status, aborted partial messages, system common
    cancelling running status, SysEx payload ignored, real-time bytes anywhere) *)
Theorem C06_parser_decodes : forall bytes,
  Forall is_byte bytes ->
  filter visible (parser_msgs Idle bytes) = decode bytes.
Proof. exact parser_decodes. Qed.

(** after every byte sequence (hence after every byte) all outputs equal those obtained
    by applying the decoded messages *)
Theorem C06_framing : forall ch bytes,
  Forall is_byte bytes ->
  observe (run_bytes ch bytes) = observe (run_msgs ch (decode bytes)).
Proof. exact framing. Qed.

(** real-time bytes inserted anywhere change no output *)
Theorem C06_realtime_transparent : forall ch l1 l2 b,
  Forall is_byte (l1 ++ l2) -> is_byte b -> is_realtime b = true ->
  observe (run_bytes ch (l1 ++ b :: l2)) = observe (run_bytes ch (l1 ++ l2)).
Proof. exact realtime_transparent. Qed.

(** messages on other channels and unsupported messages change nothing *)
Theorem C06_foreign_channel_transparent : forall r m,
  match m with
  | MNoteOff c _ _ | MNoteOn c _ _ | MControlChange c _ _ | MPitchBend c _ _ => c <> r_channel r
  | MOther => True
  end -> apply_msg r m = r.
Proof. exact foreign_channel_transparent. Qed.

(** no [debug_assert!] of midi-types is reachable from any byte sequence *)
Theorem C06_no_panic : forall ch l b,
  Forall is_byte l -> is_byte b ->
  rx_step_ok (run_bytes ch l) (RByte b) = true.
Proof. exact bytes_no_panic. Qed.

(** histories that mix bytes with edge polls and mode changes: the byte-at-a-time receiver
    behaves like the message-level receiver on the lifted history (each byte replaced by the
    message it completes, if any); all outputs, the held-note list and every poll result
    agree.  This is what carries the message-level theorems of C04 and C05 over to real byte
    streams with polls anywhere, also between the bytes of a message. *)
Theorem C06_ops_lift : forall ch ops,
  observe (rx_run (rx_new ch) ops) = observe (mrun ch (lift Idle ops)) /\
  r_held (rx_run (rx_new ch) ops) = r_held (mrun ch (lift Idle ops)) /\
  rx_polls (rx_new ch) ops = m_polls (rx_new ch) (lift Idle ops).
Proof. exact ops_lift. Qed.

Example C06_example :
  decode [144; 60; 248; 100; 64; 90; 241; 5; 128; 60; 0; 60]
  = [MNoteOn 0 60 100; MNoteOn 0 64 90; MNoteOff 0 60 0].
Proof. vm_compute. reflexivity. Qed.

(** byte level: a status byte of another channel followed by any number of data bytes (a complete message, a partial one, or running-status repeats), inserted anywhere before a point where the next non-real-time byte is a status byte (or the stream ends), does not change any getter after the whole stream *)
Theorem C06_foreign_bytes_transparent : forall ch l1 s d l2,
  Forall is_byte (l1 ++ l2) ->
  foreign_status ch s -> Forall data_byte d ->
  at_boundary l2 ->
  observe (run_bytes ch (l1 ++ s :: d ++ l2)) = observe (run_bytes ch (l1 ++ l2)).
Proof. exact C06_foreign_bytes_transparent. Qed.

(** in particular a complete channel-voice message for another channel *)
Theorem C06_foreign_message_bytes : forall ch l1 mb l2,
  Forall is_byte (l1 ++ l2) ->
  voice_message_bytes mb -> message_channel mb <> Z.min ch 15 ->
  at_boundary l2 ->
  observe (run_bytes ch (l1 ++ mb ++ l2)) = observe (run_bytes ch (l1 ++ l2)).
Proof. exact C06_foreign_message_bytes. Qed.

(** the boundary condition has to skip real-time bytes: a real-time byte does not end running status *)
Theorem C06_boundary_condition_needed :
  observe (run_bytes 0 ([144; 60; 100] ++ [145; 1; 1] ++ [248; 62; 100]))
  <> observe (run_bytes 0 ([144; 60; 100] ++ [248; 62; 100])).
Proof. exact boundary_condition_needed. Qed.

Print Assumptions C06_parser_decodes.
Print Assumptions C06_framing.
Print Assumptions C06_realtime_transparent.
Print Assumptions C06_foreign_channel_transparent.
Print Assumptions C06_no_panic.
Print Assumptions C06_ops_lift.
Print Assumptions C06_foreign_bytes_transparent.
Print Assumptions C06_foreign_message_bytes.
Print Assumptions C06_boundary_condition_needed.
