(** C06 — MIDI byte stream framing.  Only the property theorems; proofs are in
    Proofs/MidiParserProofs.v. *)
From Coq Require Import ZArith Bool List.
Import ListNotations.
From SU Require Import F32.
From SU.Model Require Import Midi.
From SU.Spec Require Import MidiSpec.
From SU.Proofs Require Import MidiParserProofs MidiLiftProofs.
From SU.Proofs Require Import MidiExtraProofs.
From SU.Proofs Require Import MidiKillers.
From SU.Proofs Require Import MidiIgnoredProofs.
Open Scope Z_scope.

(** the messages the byte-at-a-time parser completes are exactly those of the
    reference decoder (running status, aborted partial messages, system common
    cancelling running status, SysEx payload ignored, real-time bytes anywhere) *)
Theorem C06_parser_decodes : forall bytes,
  Forall is_byte bytes ->
  filter visible (parser_msgs Idle bytes) = decode bytes.
Proof. exact parser_decodes. Qed.

(** after every byte sequence (hence after every byte) all outputs equal those obtained
    by applying the decoded messages *)
Theorem C06_framing : forall ch bytes,
  Forall is_byte bytes ->
  observe (run_bytes ch bytes) = observe (run_msgs ch (decode bytes)).
Proof. exact framing. Qed.

(** real-time bytes inserted anywhere change no output *)
Theorem C06_realtime_transparent : forall ch l1 l2 b,
  Forall is_byte (l1 ++ l2) -> is_byte b -> is_realtime b = true ->
  observe (run_bytes ch (l1 ++ b :: l2)) = observe (run_bytes ch (l1 ++ l2)).
Proof. exact realtime_transparent. Qed.

(** messages on other channels and unsupported messages change nothing *)
Theorem C06_foreign_channel_transparent : forall r m,
  match m with
  | MNoteOff c _ _ | MNoteOn c _ _ | MControlChange c _ _ | MPitchBend c _ _ => c <> r_channel r
  | MOther => True
  end -> apply_msg r m = r.
Proof. exact foreign_channel_transparent. Qed.

(** no [debug_assert!] of midi-types is reachable from any byte sequence *)
Theorem C06_no_panic : forall ch l b,
  Forall is_byte l -> is_byte b ->
  rx_step_ok (run_bytes ch l) (RByte b) = true.
Proof. exact bytes_no_panic. Qed.

(** histories that mix bytes with edge polls and mode changes: the byte-at-a-time receiver
    behaves like the message-level receiver on the lifted history (each byte replaced by the
    message it completes, if any); all outputs, the held-note list and every poll result
    agree.  This is what carries the message-level theorems of C04 and C05 over to real byte
    streams with polls anywhere, also between the bytes of a message. *)
Theorem C06_ops_lift : forall ch ops,
  observe (rx_run (rx_new ch) ops) = observe (mrun ch (lift Idle ops)) /\
  r_held (rx_run (rx_new ch) ops) = r_held (mrun ch (lift Idle ops)) /\
  rx_polls (rx_new ch) ops = m_polls (rx_new ch) (lift Idle ops).
Proof. exact ops_lift. Qed.

Example C06_example :
  decode [144; 60; 248; 100; 64; 90; 241; 5; 128; 60; 0; 60]
  = [MNoteOn 0 60 100; MNoteOn 0 64 90; MNoteOff 0 60 0].
Proof. vm_compute. reflexivity. Qed.

(** byte level: a status byte of another channel followed by any number of data bytes (a complete message, a partial one, or running-status repeats), inserted anywhere before a point where the next non-real-time byte is a status byte (or the stream ends), does not change any getter after the whole stream *)
Theorem C06_foreign_bytes_transparent : forall ch l1 s d l2,
  Forall is_byte (l1 ++ l2) ->
  foreign_status ch s -> Forall data_byte d ->
  at_boundary l2 ->
  observe (run_bytes ch (l1 ++ s :: d ++ l2)) = observe (run_bytes ch (l1 ++ l2)).
Proof. exact C06_foreign_bytes_transparent. Qed.

(** in particular a complete channel-voice message for another channel *)
Theorem C06_foreign_message_bytes : forall ch l1 mb l2,
  Forall is_byte (l1 ++ l2) ->
  voice_message_bytes mb -> message_channel mb <> Z.min ch 15 ->
  at_boundary l2 ->
  observe (run_bytes ch (l1 ++ mb ++ l2)) = observe (run_bytes ch (l1 ++ l2)).
Proof. exact C06_foreign_message_bytes. Qed.

(** the boundary condition has to skip real-time bytes: a real-time byte does not end running status *)
Theorem C06_boundary_condition_needed :
  observe (run_bytes 0 ([144; 60; 100] ++ [145; 1; 1] ++ [248; 62; 100]))
  <> observe (run_bytes 0 ([144; 60; 100] ++ [248; 62; 100])).
Proof. exact boundary_condition_needed. Qed.

(** the two byte classifiers the reference decoder shares with the model, pinned independently: a status byte is a byte >= 128 *)
Theorem C06_is_status_byte_spec : forall b, is_byte b -> is_status_byte b = (128 <=? b).
Proof. exact is_status_byte_spec. Qed.

(** a system message byte is a byte >= 240 (a model that classified 0xB0..0xBF as system bytes would satisfy every other C06 theorem, because `decode` uses the same classifier) *)
Theorem C06_is_system_message_spec : forall b, is_byte b -> is_system_message b = (240 <=? b).
Proof. exact is_system_message_spec. Qed.

(** the reference decoder on every three-byte channel voice message, by status nibble *)
Theorem C06_decode_voice_message : forall ch a b,
  0 <= ch < 16 -> 0 <= a < 128 -> 0 <= b < 128 ->
  decode [128 + ch; a; b] = [MNoteOff ch a b] /\
  decode [144 + ch; a; b] = [MNoteOn ch a b] /\
  decode [176 + ch; a; b] = [MControlChange ch a b] /\
  decode [224 + ch; a; b] = [MPitchBend ch b a] /\
  decode [160 + ch; a; b] = [] /\ decode [192 + ch; a; b] = [] /\ decode [208 + ch; a; b] = [].
Proof. exact decode_voice_message. Qed.

(** byte level, from ANY receiver state: the three bytes of a control change on the listened channel act exactly like handle_cc *)
Theorem C06_cc_bytes_any_state : forall r c v,
  0 <= r_channel r < 16 -> 0 <= c < 128 -> 0 <= v < 128 ->
  observe (fold_left rx_parse [176 + r_channel r; c; v] r) = observe (handle_cc r c v).
Proof. exact cc_bytes_any_state. Qed.

(** same for note-on *)
Theorem C06_note_on_bytes_any_state : forall r n v,
  0 <= r_channel r < 16 -> 0 <= n < 128 -> 0 < v < 128 ->
  observe (fold_left rx_parse [144 + r_channel r; n; v] r) = observe (handle_note_on r n v).
Proof. exact note_on_bytes_any_state. Qed.

(** same for note-off *)
Theorem C06_note_off_bytes_any_state : forall r n v,
  0 <= r_channel r < 16 -> 0 <= n < 128 -> 0 <= v < 128 ->
  observe (fold_left rx_parse [128 + r_channel r; n; v] r) = observe (handle_note_off r n).
Proof. exact note_off_bytes_any_state. Qed.

(** same for pitch bend (LSB first on the wire) *)
Theorem C06_pitch_bend_bytes_any_state : forall r lsb msb,
  0 <= r_channel r < 16 -> 0 <= lsb < 128 -> 0 <= msb < 128 ->
  observe (fold_left rx_parse [224 + r_channel r; lsb; msb] r)
  = observe (apply_msg r (MPitchBend (r_channel r) msb lsb)).
Proof. exact pitch_bend_bytes_any_state. Qed.

(** unsupported message types inside a stream: key pressure, program change, channel pressure on ANY channel (the listened one included), every system common byte F0..F7 (SysEx payloads, F1/F2/F3 data, undefined F4/F5, tune request) and voice messages of other channels, followed by any data bytes, change no getter *)
Theorem C06_ignored_bytes_transparent : forall ch l1 s d l2,
  Forall is_byte (l1 ++ l2) ->
  ignored_status ch s -> Forall data_byte d ->
  at_boundary l2 ->
  observe (run_bytes ch (l1 ++ s :: d ++ l2)) = observe (run_bytes ch (l1 ++ l2)).
Proof. exact C06_ignored_bytes_transparent. Qed.

(** the same with real-time bytes interleaved inside the ignored message *)
Theorem C06_ignored_bytes_rt_transparent : forall ch l1 s d l2,
  Forall is_byte (l1 ++ l2) ->
  ignored_status ch s -> Forall data_or_rt d ->
  at_boundary l2 ->
  observe (run_bytes ch (l1 ++ s :: d ++ l2)) = observe (run_bytes ch (l1 ++ l2)).
Proof. exact C06_ignored_bytes_rt_transparent. Qed.

(** a complete SysEx F0 ... F7 *)
Theorem C06_sysex_transparent : forall ch l1 d l2,
  Forall is_byte (l1 ++ l2) ->
  Forall data_or_rt d ->
  at_boundary l2 ->
  observe (run_bytes ch (l1 ++ 240 :: d ++ 247 :: l2)) = observe (run_bytes ch (l1 ++ l2)).
Proof. exact C06_sysex_transparent. Qed.

(** the boundary condition is MIDI 1.0 itself: the inserted status takes over running status *)
Theorem C06_ignored_boundary_needed :
  obs_note (observe (run_bytes 0 ([144; 60; 100] ++ 160 :: [60; 50] ++ [62; 100]))) = 60 /\
  obs_note (observe (run_bytes 0 ([144; 60; 100] ++ [62; 100]))) = 62.
Proof. exact ignored_boundary_condition_needed_key_pressure. Qed.

Print Assumptions C06_parser_decodes.
Print Assumptions C06_framing.
Print Assumptions C06_realtime_transparent.
Print Assumptions C06_foreign_channel_transparent.
Print Assumptions C06_no_panic.
Print Assumptions C06_ops_lift.
Print Assumptions C06_foreign_bytes_transparent.
Print Assumptions C06_foreign_message_bytes.
Print Assumptions C06_boundary_condition_needed.
Print Assumptions C06_is_status_byte_spec.
Print Assumptions C06_is_system_message_spec.
Print Assumptions C06_decode_voice_message.
Print Assumptions C06_cc_bytes_any_state.
Print Assumptions C06_note_on_bytes_any_state.
Print Assumptions C06_note_off_bytes_any_state.
Print Assumptions C06_pitch_bend_bytes_any_state.
Print Assumptions C06_ignored_bytes_transparent.
Print Assumptions C06_ignored_bytes_rt_transparent.
Print Assumptions C06_sysex_transparent.
Print Assumptions C06_ignored_boundary_needed.
