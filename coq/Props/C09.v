(** C09 — Quantizer hysteresis: stable inside the window, history-free outside it.
    Only the property theorems; proofs are in Proofs/QuantHystProofs.v. *)
From Coq Require Import ZArith Bool List Reals Lia.
Import ListNotations.
From SU Require Import F32 F32Lemmas.
From SU.Model Require Import Quantizer.
From SU.Spec Require Import QuantSpec.
From SU.Proofs Require Import QuantHystProofs.
From Flocq Require Import Core IEEE754.BinarySingleNaN.
From SU.Proofs Require Import QuantExtraProofs.
From SU.Proofs Require Import QuantKillers.
From SU.Proofs Require Import QuantKeepsProofs.
Open Scope R_scope.

(** if the previously reported note is still allowed and the input is inside its window,
    the note and the stairstep do not change (only the fraction is recomputed) *)
Theorem C09_keep : forall q v, keeps q v = true ->
  let c := snd (convert q v) in
  c_note c = c_note (q_cached q) /\ c_stair c = c_stair (q_cached q) /\
  q_cached (fst (convert q v)) = c /\ q_allowed (fst (convert q v)) = q_allowed q.
Proof. exact keep_spec. Qed.

(** in every other case the result is exactly what a quantizer without history (same
    scale) reports for that input *)
Theorem C09_memoryless : forall q v, keeps q v = false ->
  snd (convert q v) = snd (convert (mkQuant conv_new (q_allowed q)) v) /\
  q_cached (fst (convert q v)) = snd (convert q v) /\ q_allowed (fst (convert q v)) = q_allowed q.
Proof. exact memoryless_spec. Qed.

(** every cached conversion of a reachable quantizer has stairstep = note / 12 (or is the
    initial one, which has no window) *)
Theorem C09_cached_ok : forall ops, wf_ops ops -> cached_ok (q_cached (qrun ops)).
Proof. exact cached_invariant. Qed.

(** the window test (applied to the clamped input, which is never NaN) is exactly
    "strictly between the two f32 bounds" ... *)
Theorem C09_window_test : forall N v, (0 <= N <= 131)%Z ->
  in_window (mkConv N (stair_of N) f_0) v = true <->
  (fin v /\ R32 (win_lo N) < R32 v < R32 (win_hi N)).
Proof. exact window_test. Qed.

(** ... and the bounds are the note's semitone bucket [N/12, (N+1)/12] widened by one tenth
    of a semitone (1/120 V) on each side, up to f32 rounding (2^-19 V) *)
Theorem C09_window_bounds : forall N, (0 <= N <= 131)%Z ->
  Rabs (R32 (win_lo N) - (IZR N / 12 - / 120)) <= / 524288 /\
  Rabs (R32 (win_hi N) - (IZR (N + 1) / 12 + / 120)) <= / 524288.
Proof. exact window_bounds. Qed.

(** for a fixed scale a non-decreasing input sequence yields a non-decreasing note
    sequence, from every reachable state *)
Theorem C09_monotone : forall ops vs, wf_ops ops -> fle_sorted vs ->
  nondecreasing (convert_seq (qrun ops) vs).
Proof. exact hysteresis_monotone. Qed.

(** chromatic scale, noise around the boundary k/12 smaller than the hysteresis width
    (minus 2^-18 V for f32 rounding): after the first conversion the note never changes *)
Theorem C09_noise_one_change : forall ops k v vs, wf_ops ops ->
  q_allowed (qrun ops) = 4095%Z -> (1 <= k <= 120)%Z ->
  (forall x, In x (v :: vs) -> fin x /\ Rabs (R32 x - IZR k / 12) <= R32 HYST - / 262144) ->
  forall n, In n (convert_seq (qrun ops) (v :: vs)) -> n = hd 0%Z (convert_seq (qrun ops) (v :: vs)).
Proof. exact noise_one_change. Qed.

(** any scale: while the inputs stay inside the widened bucket of a note n, once n is reported it is never left *)
Open Scope Z_scope.
Theorem C09_window_sticky : forall ops n vs, wf_ops ops -> 0 <= n <= 131 ->
  (forall x, In x vs -> (R32 (win_lo n) < R32 (clamp_vin x) < R32 (win_hi n))%R) ->
  sticky (fun m => m = n) (convert_seq (qrun ops) vs).
Proof. exact window_sticky. Qed.
Close Scope Z_scope.

(** any scale in which the note above the boundary is allowed: noise within the hysteresis width around that boundary causes no change after the first conversion *)
Open Scope Z_scope.
Theorem C09_noise_upper_allowed : forall ops k v vs, wf_ops ops -> 1 <= k <= 120 ->
  note_allowed (q_allowed (qrun ops)) k = true ->
  (forall x, In x (v :: vs) -> fin x /\ (Rabs (R32 x - IZR k / 12) <= R32 HYST - / 262144)%R) ->
  forall n, In n (convert_seq (qrun ops) (v :: vs)) ->
            n = hd 0 (convert_seq (qrun ops) (v :: vs)).
Proof. exact noise_upper_allowed. Qed.
Close Scope Z_scope.

(** any scale in which the note below the boundary is allowed: at most one change *)
Open Scope Z_scope.
Theorem C09_noise_lower_allowed : forall ops k vs, wf_ops ops -> 1 <= k <= 120 ->
  note_allowed (q_allowed (qrun ops)) (k - 1) = true ->
  (forall x, In x vs -> fin x /\ (Rabs (R32 x - IZR k / 12) <= R32 HYST - / 262144)%R) ->
  (changes (convert_seq (qrun ops) vs) <= 1)%nat.
Proof. exact noise_lower_allowed. Qed.
Close Scope Z_scope.

(** and where neither is allowed (scale {C, E}, boundary at D) there is no noise immunity: the decision point of the nearest-note search lies outside both windows. The property claims immunity around a chromatic boundary only *)
Open Scope Z_scope.
Theorem C09_noise_gap_scale_unbounded : forall n,
  let ops := [QForbid [1; 2; 3; 5; 6; 7; 8; 9; 10; 11]] in
  wf_ops ops /\ q_allowed (qrun ops) = 17 /\
  (forall x, In x (alt_in (S n)) ->
     fin x /\ (Rabs (R32 x - IZR 2 / 12) <= R32 HYST - / 262144)%R) /\
  convert_seq (qrun ops) (alt_in (S n)) = alt_out (S n) /\
  changes (convert_seq (qrun ops) (alt_in (S n))) = (2 * n + 1)%nat.
Proof. exact noise_gap_scale_unbounded. Qed.
Close Scope Z_scope.

(** non-vacuity: a reachable state and input inside the window *)
Open Scope Z_scope.
Theorem C09_ex_keeps :
  let ops := [QConvert v_0_5] in
  let q := qrun ops in
  wf_ops ops /\ c_note (q_cached q) = 6 /\
  keeps q v_0_5042 = true /\ c_note (snd (convert q v_0_5042)) = 6.
Proof. exact ex_keeps. Qed.
Close Scope Z_scope.

(** and outside it *)
Open Scope Z_scope.
Theorem C09_ex_not_keeps :
  let ops := [QConvert v_0_5] in
  let q := qrun ops in
  wf_ops ops /\ keeps q v_0_7 = false /\ c_note (snd (convert q v_0_7)) = 8.
Proof. exact ex_not_keeps. Qed.
Close Scope Z_scope.

(** non-vacuity of C09_noise_one_change *)
Open Scope Z_scope.
Theorem C09_ex_noise_one_change :
  let ops := @nil quant_op in
  let vs := [v_0_496; v_0_504; v_0_496; v_0_5] in
  wf_ops ops /\ q_allowed (qrun ops) = 4095 /\ 1 <= 6 <= 120 /\
  (forall x, In x vs -> fin x /\ (Rabs (R32 x - IZR 6 / 12) <= R32 HYST - / 262144)%R) /\
  convert_seq (qrun ops) vs = [5; 5; 5; 5] /\
  convert_seq (qrun ops) [v_0_504; v_0_496] = [6; 6].
Proof. exact ex_noise_one_change. Qed.
Close Scope Z_scope.

(** non-vacuity of C09_monotone *)
Open Scope Z_scope.
Theorem C09_ex_monotone :
  let ops := [QConvert v_0_25; QForbid [2]] in
  let vs := [f_0; v_0_25; v_0_5; v_0_5042; v_0_7; v_10; B754_infinity false] in
  wf_ops ops /\ fle_sorted vs /\
  convert_seq (qrun ops) vs = [0; 3; 6; 6; 8; 120; 120] /\
  nondecreasing (convert_seq (qrun ops) vs).
Proof. exact ex_monotone. Qed.
Close Scope Z_scope.

(** a scale edit never touches the remembered conversion *)
Open Scope Z_scope.
Theorem C09_edit_keeps_cache : forall q o,
  match o with QConvert _ => True | _ => q_cached (quant_step q o) = q_cached q end.
Proof. exact KQ_edit_keeps_cache. Qed.
Close Scope Z_scope.

(** hence the note is kept across any scale edit that leaves it allowed ("scale edits between conversions") *)
Open Scope Z_scope.
Theorem C09_keep_across_edit : forall q o v,
  (forall x, o <> QConvert x) ->
  let q' := quant_step q o in
  note_allowed (q_allowed q') (c_note (q_cached q)) = true ->
  0 <= c_note (q_cached q) ->
  in_window (q_cached q) (clamp_vin v) = true ->
  c_note (snd (convert q' v)) = c_note (q_cached q) /\
  c_stair (snd (convert q' v)) = c_stair (q_cached q).
Proof. exact KQ_keep_across_edit. Qed.
Close Scope Z_scope.

(** non-vacuity: three edits, a fresh quantizer would answer differently *)
Open Scope Z_scope.
Theorem C09_ex_keep_across_edit :
  convert_seq (qrun [QConvert v_0_5; QAllow [3]]) [v_0_496] = [6] /\
  convert_seq (qrun [QConvert v_0_5; QForbid [5; 7]]) [v_0_496] = [6] /\
  convert_seq (qrun [QConvert v_0_5; QForbid [0; 1; 2; 3; 4; 5; 7; 8; 9; 10; 11; 6]]) [v_0_496] = [6] /\
  convert_seq (qrun []) [v_0_496] = [5].
Proof. exact KQ_ex_keep_across_edit. Qed.
Close Scope Z_scope.

(** the branch condition of the two theorems above, characterised independently for every reachable quantizer: a conversion has happened, the remembered note is still allowed, and the clamped input is strictly inside the f32 window *)
Open Scope Z_scope.
Theorem C09_keeps_iff : forall ops v, wf_ops ops ->
  let q := qrun ops in
  let n := c_note (q_cached q) in
  keeps q v = true <->
  (has_convert ops = true /\ note_allowed (q_allowed q) n = true /\
   (R32 (win_lo n) < R32 (clamp_vin v) < R32 (win_hi n))%R).
Proof. exact keeps_iff. Qed.
Close Scope Z_scope.

(** whose bounds are n/12 - 1/120 and (n+1)/12 + 1/120 within 2^-19 V *)
Open Scope Z_scope.
Theorem C09_win_bounds : forall n, 0 <= n <= 131 ->
  (Rabs (R32 (win_lo n) - (IZR n / 12 - / 120)) <= / 524288 /\
   Rabs (R32 (win_hi n) - (IZR (n + 1) / 12 + / 120)) <= / 524288)%R.
Proof. exact win_bounds. Qed.
Close Scope Z_scope.

(** before the first conversion nothing is kept *)
Open Scope Z_scope.
Theorem C09_keeps_initial : forall q v, q_cached q = conv_new -> keeps q v = false.
Proof. exact keeps_initial. Qed.
Close Scope Z_scope.

(** the first clause of the property with no reference to the model's branch *)
Open Scope Z_scope.
Theorem C09_keep_real : forall ops v, wf_ops ops ->
  let q := qrun ops in
  let n := c_note (q_cached q) in
  has_convert ops = true ->
  note_allowed (q_allowed q) n = true ->
  (IZR n / 12 - / 120 + / 524288 < R32 (clamp_vin v)
     < IZR (n + 1) / 12 + / 120 - / 524288)%R ->
  c_note (snd (convert q v)) = n /\
  c_stair (snd (convert q v)) = c_stair (q_cached q) /\
  q_cached (fst (convert q v)) = snd (convert q v) /\
  q_allowed (fst (convert q v)) = q_allowed q.
Proof. exact C09_keep_real. Qed.
Close Scope Z_scope.

(** the second clause likewise: not yet converted, or note no longer allowed, or input outside the widened bucket -> exactly the history-free record *)
Open Scope Z_scope.
Theorem C09_memoryless_real : forall ops v, wf_ops ops ->
  let q := qrun ops in
  let n := c_note (q_cached q) in
  (has_convert ops = false \/
   note_allowed (q_allowed q) n = false \/
   (R32 (clamp_vin v) <= IZR n / 12 - / 120 - / 524288)%R \/
   (IZR (n + 1) / 12 + / 120 + / 524288 <= R32 (clamp_vin v))%R) ->
  snd (convert q v) = snd (convert (mkQuant conv_new (q_allowed q)) v) /\
  q_cached (fst (convert q v)) = snd (convert q v) /\
  q_allowed (fst (convert q v)) = q_allowed q.
Proof. exact C09_memoryless_real. Qed.
Close Scope Z_scope.

(** the first clause needs "previously reported": a fresh quantizer remembers note 0 but its window is empty *)
Open Scope Z_scope.
Theorem C09_keep_real_needs_conversion :
  let ops := @nil quant_op in
  let q := qrun ops in
  wf_ops ops /\ has_convert ops = false /\ c_note (q_cached q) = 0 /\
  note_allowed (q_allowed q) 0 = true /\
  (IZR 0 / 12 - / 120 + / 524288 < R32 (clamp_vin v_0_0834)
     < IZR (0 + 1) / 12 + / 120 - / 524288)%R /\
  c_note (snd (convert q v_0_0834)) = 1.
Proof. exact keep_real_needs_conversion. Qed.
Close Scope Z_scope.

(** non-vacuity *)
Open Scope Z_scope.
Theorem C09_ex_keep_real :
  let ops := [QConvert v_0_5] in
  let q := qrun ops in
  wf_ops ops /\ has_convert ops = true /\ c_note (q_cached q) = 6 /\
  note_allowed (q_allowed q) 6 = true /\
  (IZR 6 / 12 - / 120 + / 524288 < R32 (clamp_vin v_0_496)
     < IZR (6 + 1) / 12 + / 120 - / 524288)%R /\
  c_note (snd (convert q v_0_496)) = 6 /\
  c_note (snd (convert (mkQuant conv_new (q_allowed q)) v_0_496)) = 5 /\
  keeps q v_0_496 = true.
Proof. exact ex_keep_real. Qed.
Close Scope Z_scope.

(** non-vacuity: note forbidden in between *)
Open Scope Z_scope.
Theorem C09_ex_memoryless_real_forbidden :
  let ops := [QConvert v_0_5; QForbid [6]] in
  let q := qrun ops in
  wf_ops ops /\ has_convert ops = true /\ c_note (q_cached q) = 6 /\
  note_allowed (q_allowed q) 6 = false /\
  (IZR 6 / 12 - / 120 + / 524288 < R32 (clamp_vin v_0_5042)
     < IZR (6 + 1) / 12 + / 120 - / 524288)%R /\
  snd (convert q v_0_5042) = snd (convert (mkQuant conv_new (q_allowed q)) v_0_5042) /\
  c_note (snd (convert q v_0_5042)) = 7 /\ keeps q v_0_5042 = false.
Proof. exact ex_memoryless_real_forbidden. Qed.
Close Scope Z_scope.

Print Assumptions C09_keep.
Print Assumptions C09_memoryless.
Print Assumptions C09_cached_ok.
Print Assumptions C09_window_test.
Print Assumptions C09_window_bounds.
Print Assumptions C09_monotone.
Print Assumptions C09_noise_one_change.
Print Assumptions C09_window_sticky.
Print Assumptions C09_noise_upper_allowed.
Print Assumptions C09_noise_lower_allowed.
Print Assumptions C09_noise_gap_scale_unbounded.
Print Assumptions C09_ex_keeps.
Print Assumptions C09_ex_not_keeps.
Print Assumptions C09_ex_noise_one_change.
Print Assumptions C09_ex_monotone.
Print Assumptions C09_edit_keeps_cache.
Print Assumptions C09_keep_across_edit.
Print Assumptions C09_ex_keep_across_edit.
Print Assumptions C09_keeps_iff.
Print Assumptions C09_win_bounds.
Print Assumptions C09_keeps_initial.
Print Assumptions C09_keep_real.
Print Assumptions C09_memoryless_real.
Print Assumptions C09_keep_real_needs_conversion.
Print Assumptions C09_ex_keep_real.
Print Assumptions C09_ex_memoryless_real_forbidden.
