(** C09 — Quantizer hysteresis: stable inside the window, history-free outside it.
    Only the property theorems; proofs are in Proofs/QuantHystProofs.v. *)
From Coq Require Import ZArith Bool List Reals Lia.
Import ListNotations.
From SU Require Import F32 F32Lemmas.
From SU.Model Require Import Quantizer.
From SU.Spec Require Import QuantSpec.
From SU.Proofs Require Import QuantHystProofs.
Open Scope R_scope.

(** if the previously reported note is still allowed and the input is inside its window,
    the note and the stairstep do not change (only the fraction is recomputed) *)
Theorem C09_keep : forall q v, keeps q v = true ->
  let c := snd (convert q v) in
  c_note c = c_note (q_cached q) /\ c_stair c = c_stair (q_cached q) /\
  q_cached (fst (convert q v)) = c /\ q_allowed (fst (convert q v)) = q_allowed q.
Proof. exact keep_spec. Qed.

(** in every other case the result is exactly what a quantizer without history (same
    scale) reports for that input *)
Theorem C09_memoryless : forall q v, keeps q v = false ->
  snd (convert q v) = snd (convert (mkQuant conv_new (q_allowed q)) v) /\
  q_cached (fst (convert q v)) = snd (convert q v) /\ q_allowed (fst (convert q v)) = q_allowed q.
Proof. exact memoryless_spec. Qed.

(** every cached conversion of a reachable quantizer has stairstep = note / 12 (or is the
    initial one, which has no window) *)
Theorem C09_cached_ok : forall ops, wf_ops ops -> cached_ok (q_cached (qrun ops)).
Proof. exact cached_invariant. Qed.

(** the window test (applied to the clamped input, which is never NaN) is exactly
    "strictly between the two f32 bounds" ... *)
Theorem C09_window_test : forall N v, (0 <= N <= 131)%Z ->
  in_window (mkConv N (stair_of N) f_0) v = true <->
  (fin v /\ R32 (win_lo N) < R32 v < R32 (win_hi N)).
Proof. exact window_test. Qed.

(** ... and the bounds are the note's semitone bucket [N/12, (N+1)/12] widened by one tenth
    of a semitone (1/120 V) on each side, up to f32 rounding (2^-19 V) *)
Theorem C09_window_bounds : forall N, (0 <= N <= 131)%Z ->
  Rabs (R32 (win_lo N) - (IZR N / 12 - / 120)) <= / 524288 /\
  Rabs (R32 (win_hi N) - (IZR (N + 1) / 12 + / 120)) <= / 524288.
Proof. exact window_bounds. Qed.

(** for a fixed scale a non-decreasing input sequence yields a non-decreasing note
    sequence, from every reachable state *)
Theorem C09_monotone : forall ops vs, wf_ops ops -> fle_sorted vs ->
  nondecreasing (convert_seq (qrun ops) vs).
Proof. exact hysteresis_monotone. Qed.

(** chromatic scale, noise around the boundary k/12 smaller than the hysteresis width
    (minus 2^-18 V for f32 rounding): after the first conversion the note never changes *)
Theorem C09_noise_one_change : forall ops k v vs, wf_ops ops ->
  q_allowed (qrun ops) = 4095%Z -> (1 <= k <= 120)%Z ->
  (forall x, In x (v :: vs) -> fin x /\ Rabs (R32 x - IZR k / 12) <= R32 HYST - / 262144) ->
  forall n, In n (convert_seq (qrun ops) (v :: vs)) -> n = hd 0%Z (convert_seq (qrun ops) (v :: vs)).
Proof. exact noise_one_change. Qed.

Print Assumptions C09_keep.
Print Assumptions C09_memoryless.
Print Assumptions C09_cached_ok.
Print Assumptions C09_window_test.
Print Assumptions C09_window_bounds.
Print Assumptions C09_monotone.
Print Assumptions C09_noise_one_change.
