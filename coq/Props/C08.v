(** C08 — Quantizer picks the nearest allowed note in every octave.
    Only the property theorems; proofs are in Proofs/QuantProofs.v (integer search),
    Proofs/QuantFloat.v (input path) and Proofs/QuantReal.v (real-valued wording). *)
From Coq Require Import ZArith Bool List Reals Lia.
Import ListNotations.
From SU Require Import F32 F32Lemmas.
From SU.Model Require Import Quantizer.
From SU.Spec Require Import QuantSpec.
From SU.Proofs Require Import QuantFloat QuantProofs QuantReal.
From Flocq Require Import Core IEEE754.BinarySingleNaN.
From SU.Proofs Require Import QuantExtraProofs.
Open Scope Z_scope.

(** a quantizer with no prior conversion is never inside a hysteresis window: its result
    is the memoryless search on the clamped input, for every f32 input *)
Theorem C08_fresh_is_memoryless : forall a v,
  let c := snd (convert (mkQuant conv_new a) v) in
  c_note c = find_nearest_note a (clamp_vin v).
Proof. exact fresh_is_memoryless. Qed.

(** the search over at most three octaves with its early returns computes, for every
    scale and every input: the least allowed note closer than one semitone (i.e. the allowed
    note at or less than a semitone below the input wins over the one above it), otherwise
    the allowed note at the smallest distance (the lower one on an exact tie) -- over all
    132 notes of octaves 0..10 *)
Theorem C08_nearest : forall a v,
  valid_mask a ->
  let vin := vin_microvolts (clamp_vin v) in
  let uv := find_nearest_uv a vin in
  0 <= vin <= 10000000 /\
  nearest_spec a vin (uv / HALF) /\ uv = cand (uv / HALF) /\
  find_nearest_note a (clamp_vin v) = uv / HALF.
Proof. exact nearest_correct. Qed.

(** consequently the note never decreases as the input rises (Rust [x <= y]: any pair of
    non-NaN inputs, infinities included) *)
Theorem C08_monotone : forall a x y,
  valid_mask a -> fle x y = true ->
  find_nearest_note a (clamp_vin x) <= find_nearest_note a (clamp_vin y).
Proof. exact nearest_note_mono. Qed.

(** the same in the property's own wording, in volts ([volt N] = N/12 V) with the 10 microvolt
    tolerance: the reported note is allowed; an allowed note lying between 10 uV and one
    semitone - 10 uV below the (clamped) input always wins; and in every case the reported note
    lies in the 10 uV-widened semitone bucket at or below the input, or is nearest among all
    allowed notes of octaves 0..10 up to 10 uV *)
Theorem C08_real : forall a v, valid_mask a ->
  let x := R32 (clamp_vin v) in
  let Rn := find_nearest_note a (clamp_vin v) in
  (note_allowed a Rn = true /\ (0 <= Rn <= 131) /\ (0 <= x <= 10)%R /\
   (forall B, In B all_notes -> note_allowed a B = true ->
      (/ 100000 <= x - volt B <= / 12 - / 100000)%R -> Rn = B) /\
   ((- / 100000 <= x - volt Rn <= / 12 + / 100000)%R \/
    (forall N, In N all_notes -> note_allowed a N = true ->
       (Rabs (x - volt Rn) <= Rabs (x - volt N) + / 100000)%R))).
Proof. exact nearest_real. Qed.

(** non-vacuity / the example of the repaired octave order: only D# allowed, 1.8333 V *)
Example C08_example :
  find_nearest_note 8 (clamp_vin (of_bits 1072343443)) = 27 /\ valid_mask 8.
Proof. split; [vm_compute; reflexivity | unfold valid_mask; lia]. Qed.

(** what the input clamp is: [0,10] V, identity inside, NaN and -inf give 0 V, +inf gives 10 V *)
Theorem C08_clamp : forall v : f32,
  let r := clamp_vin v in
  fin r /\ (0 <= R32 r <= 10)%R /\
  (fin v -> R32 r = Rmin (Rmax (R32 v) 0) 10) /\
  (fin v -> (0 <= R32 v <= 10)%R -> r = v) /\
  (fin v -> (R32 v < 0)%R -> r = f_0) /\
  (fin v -> (10 < R32 v)%R -> r = V_MAX) /\
  (v = B754_nan -> r = f_0) /\
  (v = B754_infinity false -> r = V_MAX) /\
  (v = B754_infinity true -> r = f_0).
Proof. exact clamp_vin_spec. Qed.

(** clamping twice is clamping once *)
Theorem C08_clamp_idem : forall v : f32, clamp_vin (clamp_vin v) = clamp_vin v.
Proof. exact clamp_vin_idem. Qed.

Print Assumptions C08_fresh_is_memoryless.
Print Assumptions C08_nearest.
Print Assumptions C08_monotone.
Print Assumptions C08_real.
Print Assumptions C08_clamp.
Print Assumptions C08_clamp_idem.
