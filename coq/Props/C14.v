(** C14 — Glide time setting means what it says.
    Only the property theorems; proofs are in Proofs/GlideCoeffProofs.v (cutoff selection,
    dead band, pole accuracy; uses Proofs/TanfProofs.v), Proofs/GlideTimeProofs.v (real
    analysis of the step response) and Proofs/GlideFilterProofs.v (f32 recurrence). *)
From Coq Require Import ZArith Bool List Reals.
Import ListNotations.
From Flocq Require Import Core IEEE754.BinarySingleNaN.
From SU Require Import F32 F32Lemmas.
From SU.Model Require Import Utils Glide.
From SU.Spec Require Import GlideSpec.
From SU.Proofs Require Import GlideCoeffProofs GlideFilterProofs GlideTimeProofs.
From SU.Spec Require Import RunSpec.
From SU.Proofs Require Import GlideExtraProofs.
From SU.Proofs Require Import SharedProofs.
From SU.Proofs Require Import GlideKillers.
From SU.Proofs Require Import GlideTraceProofs.
Open Scope R_scope.

(** the pole installed for a time t with N = t * fs >= 100 samples (t <= 10 s) is the pole of
    the bilinear one-pole lowpass with cutoff 1/t, to within 2^-16 of its speed plus the f32
    resolution of a coefficient near -1 (4 * 2^-24) *)
Theorem C14_pole_accuracy : forall fs g0 t c,
  glide_fs_ok fs -> glide_new fs = Some g0 -> glide_time_ok t -> 100 <= R32 t * R32 fs ->
  coeffs_for g0 t = Some c ->
  let p0 := ideal_pole (R32 t * R32 fs) in
  good c /\ Rabs (pole c - p0) <= / 65536 * (1 - p0) + 4 * / 16777216.
Proof. exact pole_accuracy. Qed.

(** exact step response with such a pole: at least 99.5 % (+ margin) of the step is covered
    after ceil(N) samples and between 40 % and 55 % (with margin) after ceil(N/10) *)
Theorem C14_time_constant_real : forall N p (n n10 : nat),
  100 <= N <= 480000 ->
  Rabs (p - ideal_pole N) <= / 65536 * (1 - ideal_pole N) + 4 * / 16777216 ->
  N <= INR n < N + 1 -> N / 10 <= INR n10 < N / 10 + 1 ->
  0.996 <= step_response p n /\ 0.41 <= step_response p n10 <= 0.54.
Proof. exact time_constant_real. Qed.

(** the f32 filter follows the exact step response: after a step from lo to hi (the filter at
    rest on lo) sample n of the output is lo + (hi - lo) * step_response p n up to twice the
    resolution (16 * 2^-24 / kappa relative to the signal bound B: for kappa = 0.6/fs that is 15% of B at
    48 kHz; the version with the setting in force and approximate rest is C14_step_tracks_near_rest) *)
Theorem C14_step_tracks : forall d lo hi n kappa B,
  good (d_c d) -> kappa <= speed (d_c d) -> / 100000 <= kappa ->
  fin lo -> fin hi -> Rabs (R32 lo) <= B -> Rabs (R32 hi) <= B ->
  bpow radix2 (-100) <= B -> B <= bpow radix2 64 ->
  d_x1 d = lo -> d_y1 d = lo -> fin (d_x2 d) -> fin (d_y2 d) ->
  Rabs (R32 (d_x2 d)) <= B -> Rabs (R32 (d_y2 d)) <= B ->
  let '(_, ys) := run_const d hi (S n) in
  let y := last ys lo in
  Rabs (R32 y - (R32 lo + (R32 hi - R32 lo) * step_response (pole (d_c d)) n))
    <= 2 * resolution kappa * B.
Proof. exact step_tracks_partial. Qed.

(** times shorter than two samples select the fastest response: the cutoff is the maximum
    one, the coefficient set is the one a new processor starts with, and its pole is within
    2^-20 of zero, so the output settles within a few samples (C13_settles with p <= 2^-20) *)
Theorem C14_fastest : forall fs g0 g t,
  glide_fs_ok fs -> glide_new fs = Some g0 -> (exists ops, Forall op_time_ok ops /\ glide_after g0 ops = Some g) ->
  fin t -> 0 <= R32 t < 2 / R32 fs ->
  coeffs_for g t = Some (d_c (g_lpf g0)) /\
  Rabs (pole (d_c (g_lpf g0))) <= / 1048576.
Proof. exact fastest. Qed.

(** times above 10 s behave like 10 s: the same cutoff (the minimum one) is selected *)
Theorem C14_slowest : forall fs g0 g t,
  glide_fs_ok fs -> glide_new fs = Some g0 -> (exists ops, Forall op_time_ok ops /\ glide_after g0 ops = Some g) ->
  (fin t /\ 10 <= R32 t) \/ t = B754_infinity false ->
  glide_f0 g t = glide_f0 g (of_Z 10) /\ glide_f0 g t = g_min_fc g.
Proof. exact slowest. Qed.

(** a set_time call is honoured -- the coefficients of the requested time are installed and
    it becomes the time in effect -- unless the requested time is within 0.05 s (f32) of the
    time currently in effect, in which case nothing changes *)
Theorem C14_dead_band : forall g t,
  (is_almost t (g_cached_t g) GL_EPS = true -> glide_set_time g t = Some g) /\
  (is_almost t (g_cached_t g) GL_EPS = false ->
   forall g', glide_set_time g t = Some g' ->
     g_cached_t g' = t /\ Some (d_c (g_lpf g')) = coeffs_for g t /\
     d_y1 (g_lpf g') = d_y1 (g_lpf g) /\ d_x1 (g_lpf g') = d_x1 (g_lpf g)).
Proof. exact dead_band. Qed.

(** the dead-band test itself: |t - t_eff| <= 0.05 computed in f32 (false for NaN) *)
Theorem C14_dead_band_test : forall t c, fin t -> fin c ->
  Rabs (R32 t - R32 c) <= 1000000 ->
  (is_almost t c GL_EPS = true <-> Rabs (rnd (R32 t - R32 c)) <= R32 GL_EPS) /\
  R32 GL_EPS = 13421773 / 268435456.
Proof. exact dead_band_test. Qed.

(** the dead-band helper is |rnd(v1 - v2)| <= eps *)
Theorem C14_is_almost_spec : forall v1 v2 eps : f32, fin v1 -> fin v2 -> fin eps ->
  Rabs (R32 v1 - R32 v2) < MAXF ->
  (is_almost v1 v2 eps = true <-> Rabs (rnd (R32 v1 - R32 v2)) <= R32 eps).
Proof. exact is_almost_spec. Qed.

(** and symmetric *)
Theorem C14_is_almost_sym : forall v1 v2 eps : f32, fin v1 -> fin v2 -> fin eps ->
  Rabs (R32 v1 - R32 v2) < MAXF ->
  is_almost v1 v2 eps = is_almost v2 v1 eps.
Proof. exact is_almost_sym. Qed.

(** for every reachable processor the cached time is the time in effect: either no set_time call was honoured yet (marker -1.0, initial fastest coefficients) or the installed coefficients are exactly those of the cached time *)
Theorem C14_cached_t_in_effect : forall fs ops g, glide_run (glide_new fs) ops = Some g ->
  (g_cached_t g = GL_T0 /\
   exists g0, glide_new fs = Some g0 /\ d_c (g_lpf g) = d_c (g_lpf g0)) \/
  Some (d_c (g_lpf g)) = coeffs_for g (g_cached_t g).
Proof. exact cached_t_in_effect. Qed.

(** no documented time falls in the dead band of the marker: the first call is always honoured *)
Theorem C14_first_set_time_honoured : forall t, fin t -> 0 <= R32 t <= 1000000 - 1 ->
  is_almost t GL_T0 GL_EPS = false.
Proof. exact first_set_time_honoured. Qed.

(** a reachable processor keeps the sample rate and the cutoff clamps of the fresh one, so the time -> coefficient map is the same *)
Theorem C14_reachable_params : forall fs ops g, glide_run (glide_new fs) ops = Some g ->
  exists g0, glide_new fs = Some g0 /\ glide_after g0 ops = Some g /\
    g_fs g = fs /\ g_fs g0 = fs /\
    g_min_fc g = g_min_fc g0 /\ g_max_fc g = g_max_fc g0 /\
    g_min_fc g = GL_MIN_FC /\ g_max_fc g = fdiv fs GL_DIV /\
    (forall t, glide_f0 g t = glide_f0 g0 t) /\
    (forall t, coeffs_for g t = coeffs_for g0 t).
Proof. exact reachable_params. Qed.

(** hence pole accuracy for every reachable processor *)
Theorem C14_pole_accuracy_reachable : forall fs ops g t c,
  glide_fs_ok fs -> glide_run (glide_new fs) ops = Some g ->
  glide_time_ok t -> 100 <= R32 t * R32 fs ->
  coeffs_for g t = Some c ->
  let p0 := ideal_pole (R32 t * R32 fs) in
  good c /\ Rabs (pole c - p0) <= / 65536 * (1 - p0) + 4 * / 16777216.
Proof. exact C14_pole_accuracy_reachable. Qed.

(** and for the coefficients actually installed *)
Theorem C14_pole_in_effect : forall fs ops g,
  glide_fs_ok fs -> glide_run (glide_new fs) ops = Some g ->
  g_cached_t g <> GL_T0 ->
  glide_time_ok (g_cached_t g) -> 100 <= R32 (g_cached_t g) * R32 fs ->
  let p0 := ideal_pole (R32 (g_cached_t g) * R32 fs) in
  good (d_c (g_lpf g)) /\
  Rabs (pole (d_c (g_lpf g)) - p0) <= / 65536 * (1 - p0) + 4 * / 16777216.
Proof. exact C14_pole_in_effect. Qed.

(** "settled within 8 samples": with a time below two samples in effect, from the second sample of a held input on the output is within 24*2^-24*B of it, from the third on within 8*2^-24*B (the first sample still averages in the previous input) *)
Theorem C14_fastest_settles : forall fs ops g t x B n,
  glide_fs_ok fs -> glide_run (glide_new fs) ops = Some g ->
  fin t -> 0 <= R32 t < 2 / R32 fs ->
  Some (d_c (g_lpf g)) = coeffs_for g t ->
  df1_bounded (g_lpf g) B -> fin x -> Rabs (R32 x) <= B ->
  bpow radix2 (-100) <= B -> B <= bpow radix2 64 -> (2 <= n)%nat ->
  exists ys, glide_outputs g (repeat (GProcess x) n) = Some ys /\ length ys = n /\
    Rabs (R32 (last ys f_0) - R32 x) <= 24 * / 16777216 * B /\
    ((3 <= n)%nat -> Rabs (R32 (last ys f_0) - R32 x) <= 8 * / 16777216 * B).
Proof. exact C14_fastest_settles. Qed.

(** the same starting from the honoured set_time call, at the eighth sample *)
Theorem C14_fastest_settles_set_time : forall fs ops g g' t x B,
  glide_fs_ok fs -> glide_run (glide_new fs) ops = Some g ->
  fin t -> 0 <= R32 t < 2 / R32 fs ->
  is_almost t (g_cached_t g) GL_EPS = false -> glide_set_time g t = Some g' ->
  df1_bounded (g_lpf g) B -> fin x -> Rabs (R32 x) <= B ->
  bpow radix2 (-100) <= B -> B <= bpow radix2 64 ->
  exists ys, glide_outputs g' (repeat (GProcess x) 8) = Some ys /\ length ys = 8%nat /\
    Rabs (R32 (last ys f_0) - R32 x) <= 8 * / 16777216 * B.
Proof. exact C14_fastest_settles_set_time. Qed.

(** times beyond 10 s (and +inf) select exactly the coefficients of 10 s, in every reachable state *)
Theorem C14_coeffs_beyond_10 : forall fs ops g t,
  glide_fs_ok fs -> glide_run (glide_new fs) ops = Some g -> beyond_10 t ->
  glide_f0 g t = g_min_fc g /\ glide_f0 g t = glide_f0 g f_10 /\
  coeffs_for g t = coeffs_for g f_10.
Proof. exact coeffs_beyond_10. Qed.

(** replacing every time beyond 10 s by 10.0 in a history changes no output and no coefficient set, provided no requested time lies in (9.949, 10) where the dead band could tell the two apart *)
Theorem C14_run_beyond_10 : forall fs g0 ops,
  glide_fs_ok fs -> glide_new fs = Some g0 -> Forall op_time_clear ops ->
  glide_outputs g0 (map clamp_op ops) = glide_outputs g0 ops /\
  coeffs_used g0 (map clamp_op ops) = coeffs_used g0 ops /\
  match glide_after g0 ops, glide_after g0 (map clamp_op ops) with
  | Some g, Some h => eq_but_cached g h
  | None, None => True
  | _, _ => False
  end.
Proof. exact run_beyond_10. Qed.

(** witness that the proviso is needed: [10.04; 9.96] honours the second call, [10.0; 9.96] ignores it (0.04 s from the cached 10.0) *)
Theorem C14_run_beyond_10_false :
  map clamp_op h_orig = [GSetTime f_10; GSetTime t_9_96; GProcess w_1; GProcess w_1] /\
  run_bits w_fs h_orig = Some [Some 967135677; Some 980938051]%Z /\
  run_bits w_fs (map clamp_op h_orig) = Some [Some 967092352; Some 980873091]%Z /\
  final_bits w_fs [GSetTime t_10_04; GSetTime t_9_96]
  = Some ([Some 3212826283; Some 0; Some 967135677; Some 967135677; Some 0], Some 1092574249)%Z /\
  final_bits w_fs [GSetTime f_10; GSetTime t_9_96]
  = Some ([Some 3212826326; Some 0; Some 967092352; Some 967092352; Some 0], Some 1092616192)%Z /\
  beyond_10 t_10_04 /\ glide_time_ok t_9_96.
Proof. exact run_beyond_10_false. Qed.

(** what a new processor stores: the marker -1.0 as cached time (a model starting with cached time 0.0 would satisfy C14_cached_t_in_effect through its second disjunct and ignore a first set_time below 0.05 s) *)
Theorem C14_new_cached_marker : forall fs g0, glide_new fs = Some g0 ->
  g_cached_t g0 = GL_T0 /\ R32 (g_cached_t g0) = -1 /\
  g_fs g0 = fs /\ g_min_fc g0 = GL_MIN_FC /\ g_max_fc g0 = fdiv fs GL_DIV /\
  d_y1 (g_lpf g0) = f_0 /\ d_y2 (g_lpf g0) = f_0 /\
  d_x1 (g_lpf g0) = f_0 /\ d_x2 (g_lpf g0) = f_0.
Proof. exact new_cached_marker. Qed.

(** the first set_time call on a new processor is always honoured *)
Theorem C14_first_set_time_from_new : forall fs g0 t,
  glide_fs_ok fs -> glide_new fs = Some g0 -> glide_time_ok t ->
  exists g', glide_set_time g0 t = Some g' /\
    g_cached_t g' = t /\
    Some (d_c (g_lpf g')) = coeffs_for g0 t /\
    good (d_c (g_lpf g')) /\ 0.6 / R32 fs <= speed (d_c (g_lpf g')) /\
    d_y1 (g_lpf g') = f_0 /\ d_y2 (g_lpf g') = f_0 /\
    d_x1 (g_lpf g') = f_0 /\ d_x2 (g_lpf g') = f_0.
Proof. exact first_set_time_from_new. Qed.

(** with the accurate pole *)
Theorem C14_first_set_time_pole : forall fs g0 t g',
  glide_fs_ok fs -> glide_new fs = Some g0 -> glide_time_ok t -> 100 <= R32 t * R32 fs ->
  glide_set_time g0 t = Some g' ->
  let p0 := ideal_pole (R32 t * R32 fs) in
  g_cached_t g' = t /\ good (d_c (g_lpf g')) /\
  Rabs (pole (d_c (g_lpf g')) - p0) <= / 65536 * (1 - p0) + 4 * / 16777216.
Proof. exact first_set_time_pole. Qed.

(** end to end on the outputs of the model itself: new, set_time t, a step held for t (resp. t/10) seconds -> at least 99.6% (resp. 41%..54%) of the step, up to the resolution of the SLOWEST setting of that sample rate (2 resolution (0.6/fs) B: 15% of B at 48 kHz; the sharp version with the setting in force is C14_first_glide_end_to_end_sharp below) *)
Theorem C14_first_glide_end_to_end : forall fs g0 t hi B (n n10 : nat),
  glide_fs_ok fs -> glide_new fs = Some g0 -> glide_time_ok t ->
  100 <= R32 t * R32 fs ->
  fin hi -> Rabs (R32 hi) <= B -> bpow radix2 (-100) <= B -> B <= bpow radix2 64 ->
  R32 t * R32 fs <= INR n < R32 t * R32 fs + 1 ->
  R32 t * R32 fs / 10 <= INR n10 < R32 t * R32 fs / 10 + 1 ->
  exists ys ys10 s s10,
    glide_outputs g0 (GSetTime t :: repeat (GProcess hi) (S n)) = Some ys /\
    glide_outputs g0 (GSetTime t :: repeat (GProcess hi) (S n10)) = Some ys10 /\
    length ys = S n /\ length ys10 = S n10 /\
    Rabs (R32 (last ys f_0) - R32 hi * s) <= 2 * resolution (0.6 / R32 fs) * B /\
    Rabs (R32 (last ys10 f_0) - R32 hi * s10) <= 2 * resolution (0.6 / R32 fs) * B /\
    0.996 <= s /\ 0.41 <= s10 <= 0.54.
Proof. exact first_glide_end_to_end. Qed.

(** the step response from an APPROXIMATELY settled level (the f32 output of a glide stalls slightly short of its target, so exact rest is never reached): the leftover delta decays with p^(n+1) *)
Theorem C14_step_tracks_near_rest : forall d lo hi n kappa B delta,
  good (d_c d) -> kappa <= speed (d_c d) -> / 100000 <= kappa ->
  df1_bounded d B -> fin hi -> Rabs (R32 hi) <= B ->
  bpow radix2 (-100) <= B -> B <= bpow radix2 64 ->
  d_x1 d = lo -> Rabs (R32 (d_y1 d) - R32 lo) <= delta ->
  let y := last (snd (run_const d hi (S n))) lo in
  let p := pole (d_c d) in
  Rabs (R32 y - (R32 lo + (R32 hi - R32 lo) * step_response p n))
    <= Rmax 0 p ^ S n * delta + resolution kappa * B /\
  (0 <= p ->
   Rabs (R32 y - (R32 lo + (R32 hi - R32 lo) * step_response p n))
    <= p ^ S n * delta + resolution kappa / 2 * B).
Proof. exact step_tracks_near_rest. Qed.

(** hence for every glide of every history, from any offset *)
Theorem C14_trace_step_tracks : forall (fs : f32) (g0 : glide) (rlo rhi B : R), glide_fs_ok fs -> glide_new fs = Some g0 -> rlo <= 0 <= rhi -> (Rmax (- rlo) rhi = 0 \/ bpow radix2 (-100) <= Rmax (- rlo) rhi) -> (1 + resolution (0.6 / R32 fs)) * Rmax (- rlo) rhi <= B -> bpow radix2 (-100) <= B -> B <= bpow radix2 64 ->
  forall ops (lo hi : f32) ts n,
  Forall op_time_ok ops -> Forall (op_input_in rlo rhi) ops ->
  fin lo -> rlo <= R32 lo <= rhi -> fin hi -> rlo <= R32 hi <= rhi ->
  Forall glide_time_ok ts ->
  exists g ys y0 ws,
    glide_after g0 (ops ++ GProcess lo :: map GSetTime ts) = Some g /\
    glide_outputs g0 ops = Some ys /\
    glide_outputs g0 (ops ++ GProcess lo :: map GSetTime ts ++ repeat (GProcess hi) (S n))
      = Some (ys ++ y0 :: ws) /\
    length ws = S n /\
    let c := d_c (g_lpf g) in
    let p := pole c in
    let ideal := R32 lo + (R32 hi - R32 lo) * step_response p n in
    Rabs (R32 (last ws f_0) - ideal)
      <= Rmax 0 p ^ S n * Rabs (R32 y0 - R32 lo) + resolution (speed c) * B /\
    (0 <= p ->
     Rabs (R32 (last ws f_0) - ideal)
      <= p ^ S n * Rabs (R32 y0 - R32 lo) + resolution (speed c) / 2 * B).
Proof. exact C14_trace_step_tracks. Qed.

(** chained: settle on lo for m samples, then step to hi *)
Theorem C14_second_glide : forall (fs : f32) (g0 : glide) (rlo rhi B : R), glide_fs_ok fs -> glide_new fs = Some g0 -> rlo <= 0 <= rhi -> (Rmax (- rlo) rhi = 0 \/ bpow radix2 (-100) <= Rmax (- rlo) rhi) -> (1 + resolution (0.6 / R32 fs)) * Rmax (- rlo) rhi <= B -> bpow radix2 (-100) <= B -> B <= bpow radix2 64 ->
  forall ops (lo hi : f32) ts m n,
  Forall op_time_ok ops -> Forall (op_input_in rlo rhi) ops ->
  fin lo -> rlo <= R32 lo <= rhi -> fin hi -> rlo <= R32 hi <= rhi ->
  Forall glide_time_ok ts ->
  exists g ys y1 zs ws,
    glide_after g0 (ops ++ GProcess lo :: map GSetTime ts) = Some g /\
    glide_outputs g0 ops = Some ys /\
    glide_outputs g0 (ops ++ GProcess lo :: map GSetTime ts
                          ++ repeat (GProcess lo) m ++ repeat (GProcess hi) (S n))
      = Some (ys ++ y1 :: zs ++ ws) /\
    length zs = m /\ length ws = S n /\
    let c := d_c (g_lpf g) in
    let p := pole c in
    let pm := Rmax 0 p in
    let ideal := R32 lo + (R32 hi - R32 lo) * step_response p n in
    let delta0 := pm ^ m * Rabs (R32 y1 - R32 lo) + resolution (speed c) * B in
    Rabs (R32 (last zs y1) - R32 lo) <= delta0 /\
    Rabs (R32 (last ws f_0) - ideal) <= pm ^ S n * delta0 + resolution (speed c) * B /\
    (0 <= p ->
     Rabs (R32 (last ws f_0) - ideal)
       <= p ^ S n * (p ^ m * Rabs (R32 y1 - R32 lo) + resolution (speed c) / 2 * B)
          + resolution (speed c) / 2 * B).
Proof. exact second_glide. Qed.

(** the speed of the coefficients of time t is at least 6/N (N = t fs samples per t), and their pole is non-negative *)
Theorem C14_speed_of_time : forall fs ops g t c,
  glide_fs_ok fs -> glide_run (glide_new fs) ops = Some g ->
  glide_time_ok t -> 100 <= R32 t * R32 fs -> coeffs_for g t = Some c ->
  good c /\ 6 / (R32 t * R32 fs) <= speed c /\ 0 <= pole c /\
  / 100000 <= 6 / (R32 t * R32 fs).
Proof. exact speed_of_time. Qed.

(** the end-to-end theorem with the resolution of the setting in force: tolerance 8*2^-24 * N/6 * B instead of the worst case of the sample rate *)
Theorem C14_first_glide_end_to_end_sharp : forall fs g0 t hi B (n n10 : nat),
  glide_fs_ok fs -> glide_new fs = Some g0 -> glide_time_ok t ->
  100 <= R32 t * R32 fs ->
  fin hi -> Rabs (R32 hi) <= B -> bpow radix2 (-100) <= B -> B <= bpow radix2 64 ->
  R32 t * R32 fs <= INR n < R32 t * R32 fs + 1 ->
  R32 t * R32 fs / 10 <= INR n10 < R32 t * R32 fs / 10 + 1 ->
  exists ys ys10 s s10,
    glide_outputs g0 (GSetTime t :: repeat (GProcess hi) (S n)) = Some ys /\
    glide_outputs g0 (GSetTime t :: repeat (GProcess hi) (S n10)) = Some ys10 /\
    length ys = S n /\ length ys10 = S n10 /\
    Rabs (R32 (last ys f_0) - R32 hi * s) <= resolution (6 / (R32 t * R32 fs)) / 2 * B /\
    Rabs (R32 (last ys10 f_0) - R32 hi * s10) <= resolution (6 / (R32 t * R32 fs)) / 2 * B /\
    0.996 <= s /\ 0.41 <= s10 <= 0.54.
Proof. exact first_glide_end_to_end_sharp. Qed.

(** end to end for any glide of any history: 99.6% at t, 41..54% at t/10, up to p^(n+1) |y0 - lo| + that tolerance *)
Theorem C14_any_glide_end_to_end : forall (fs : f32) (g0 : glide) (rlo rhi B : R), glide_fs_ok fs -> glide_new fs = Some g0 -> rlo <= 0 <= rhi -> (Rmax (- rlo) rhi = 0 \/ bpow radix2 (-100) <= Rmax (- rlo) rhi) -> (1 + resolution (0.6 / R32 fs)) * Rmax (- rlo) rhi <= B -> bpow radix2 (-100) <= B -> B <= bpow radix2 64 ->
  forall ops (lo hi : f32) ts g (n n10 : nat),
  Forall op_time_ok ops -> Forall (op_input_in rlo rhi) ops ->
  fin lo -> rlo <= R32 lo <= rhi -> fin hi -> rlo <= R32 hi <= rhi ->
  Forall glide_time_ok ts ->
  glide_after g0 (ops ++ GProcess lo :: map GSetTime ts) = Some g ->
  let N := R32 (g_cached_t g) * R32 fs in
  100 <= N -> N <= INR n < N + 1 -> N / 10 <= INR n10 < N / 10 + 1 ->
  exists ys y0 ws ws10,
    glide_outputs g0 ops = Some ys /\
    glide_outputs g0 (ops ++ GProcess lo :: map GSetTime ts ++ repeat (GProcess hi) (S n))
      = Some (ys ++ y0 :: ws) /\
    glide_outputs g0 (ops ++ GProcess lo :: map GSetTime ts ++ repeat (GProcess hi) (S n10))
      = Some (ys ++ y0 :: ws10) /\
    length ws = S n /\ length ws10 = S n10 /\
    let p := pole (d_c (g_lpf g)) in
    let s := step_response p n in
    let s10 := step_response p n10 in
    glide_time_ok (g_cached_t g) /\ Some (d_c (g_lpf g)) = coeffs_for g (g_cached_t g) /\
    0 <= p < 1 /\ 0.996 <= s /\ 0.41 <= s10 <= 0.54 /\
    Rabs (R32 (last ws f_0) - (R32 lo + (R32 hi - R32 lo) * s))
      <= p ^ S n * Rabs (R32 y0 - R32 lo) + resolution (6 / N) / 2 * B /\
    Rabs (R32 (last ws10 f_0) - (R32 lo + (R32 hi - R32 lo) * s10))
      <= p ^ S n10 * Rabs (R32 y0 - R32 lo) + resolution (6 / N) / 2 * B.
Proof. exact any_glide_end_to_end. Qed.

(** in the property's own figures whenever leftover + tolerance is at most 0.1% of the step *)
Theorem C14_any_glide_percent : forall (fs : f32) (g0 : glide) (rlo rhi B : R), glide_fs_ok fs -> glide_new fs = Some g0 -> rlo <= 0 <= rhi -> (Rmax (- rlo) rhi = 0 \/ bpow radix2 (-100) <= Rmax (- rlo) rhi) -> (1 + resolution (0.6 / R32 fs)) * Rmax (- rlo) rhi <= B -> bpow radix2 (-100) <= B -> B <= bpow radix2 64 ->
  forall ops (lo hi : f32) ts g (n n10 : nat),
  Forall op_time_ok ops -> Forall (op_input_in rlo rhi) ops ->
  fin lo -> rlo <= R32 lo <= rhi -> fin hi -> rlo <= R32 hi <= rhi ->
  Forall glide_time_ok ts ->
  glide_after g0 (ops ++ GProcess lo :: map GSetTime ts) = Some g ->
  let N := R32 (g_cached_t g) * R32 fs in
  100 <= N -> N <= INR n < N + 1 -> N / 10 <= INR n10 < N / 10 + 1 ->
  R32 hi <> R32 lo ->
  exists ys y0 ws ws10,
    glide_outputs g0 ops = Some ys /\
    glide_outputs g0 (ops ++ GProcess lo :: map GSetTime ts ++ repeat (GProcess hi) (S n))
      = Some (ys ++ y0 :: ws) /\
    glide_outputs g0 (ops ++ GProcess lo :: map GSetTime ts ++ repeat (GProcess hi) (S n10))
      = Some (ys ++ y0 :: ws10) /\
    length ws = S n /\ length ws10 = S n10 /\
    (Rabs (R32 y0 - R32 lo) + resolution (6 / N) / 2 * B <= 0.001 * Rabs (R32 hi - R32 lo) ->
     0.995 <= (R32 (last ws f_0) - R32 lo) / (R32 hi - R32 lo) /\
     0.40 <= (R32 (last ws10 f_0) - R32 lo) / (R32 hi - R32 lo) <= 0.55).
Proof. exact any_glide_percent. Qed.

(** the property's own figures, unconditionally, for a first glide of up to 12582 samples per t (0.26 s at 48 kHz): at least 99.5% at t, 40%..55% at t/10.  Beyond that the f32 resolution bound exceeds the 0.1% margin *)
Theorem C14_end_to_end_percent : forall fs g0 t hi (n n10 : nat),
  glide_fs_ok fs -> glide_new fs = Some g0 -> glide_time_ok t ->
  100 <= R32 t * R32 fs <= 12582 ->
  fin hi -> bpow radix2 (-100) <= Rabs (R32 hi) <= bpow radix2 64 ->
  R32 t * R32 fs <= INR n < R32 t * R32 fs + 1 ->
  R32 t * R32 fs / 10 <= INR n10 < R32 t * R32 fs / 10 + 1 ->
  exists ys ys10,
    glide_outputs g0 (GSetTime t :: repeat (GProcess hi) (S n)) = Some ys /\
    glide_outputs g0 (GSetTime t :: repeat (GProcess hi) (S n10)) = Some ys10 /\
    length ys = S n /\ length ys10 = S n10 /\
    0.995 <= R32 (last ys f_0) / R32 hi /\
    0.40 <= R32 (last ys10 f_0) / R32 hi <= 0.55.
Proof. exact end_to_end_percent. Qed.

Print Assumptions C14_pole_accuracy.
Print Assumptions C14_time_constant_real.
Print Assumptions C14_step_tracks.
Print Assumptions C14_fastest.
Print Assumptions C14_slowest.
Print Assumptions C14_dead_band.
Print Assumptions C14_dead_band_test.
Print Assumptions C14_is_almost_spec.
Print Assumptions C14_is_almost_sym.
Print Assumptions C14_cached_t_in_effect.
Print Assumptions C14_first_set_time_honoured.
Print Assumptions C14_reachable_params.
Print Assumptions C14_pole_accuracy_reachable.
Print Assumptions C14_pole_in_effect.
Print Assumptions C14_fastest_settles.
Print Assumptions C14_fastest_settles_set_time.
Print Assumptions C14_coeffs_beyond_10.
Print Assumptions C14_run_beyond_10.
Print Assumptions C14_run_beyond_10_false.
Print Assumptions C14_new_cached_marker.
Print Assumptions C14_first_set_time_from_new.
Print Assumptions C14_first_set_time_pole.
Print Assumptions C14_first_glide_end_to_end.
Print Assumptions C14_step_tracks_near_rest.
Print Assumptions C14_trace_step_tracks.
Print Assumptions C14_second_glide.
Print Assumptions C14_speed_of_time.
Print Assumptions C14_first_glide_end_to_end_sharp.
Print Assumptions C14_any_glide_end_to_end.
Print Assumptions C14_any_glide_percent.
Print Assumptions C14_end_to_end_percent.
