(** C14 — Glide time setting means what it says.
    Only the property theorems; proofs are in Proofs/GlideCoeffProofs.v (cutoff selection,
    dead band, pole accuracy; uses Proofs/TanfProofs.v), Proofs/GlideTimeProofs.v (real
    analysis of the step response) and Proofs/GlideFilterProofs.v (f32 recurrence). *)
From Coq Require Import ZArith Bool List Reals.
Import ListNotations.
From Flocq Require Import Core IEEE754.BinarySingleNaN.
From SU Require Import F32 F32Lemmas.
From SU.Model Require Import Utils Glide.
From SU.Spec Require Import GlideSpec.
From SU.Proofs Require Import GlideCoeffProofs GlideFilterProofs GlideTimeProofs.
Open Scope R_scope.

(** the pole installed for a time t with N = t * fs >= 100 samples (t <= 10 s) is the pole of
    the bilinear one-pole lowpass with cutoff 1/t, to within 2^-16 of its speed plus the f32
    resolution of a coefficient near -1 (4 * 2^-24) *)
Theorem C14_pole_accuracy : forall fs g0 t c,
  glide_fs_ok fs -> glide_new fs = Some g0 -> glide_time_ok t -> 100 <= R32 t * R32 fs ->
  coeffs_for g0 t = Some c ->
  let p0 := ideal_pole (R32 t * R32 fs) in
  good c /\ Rabs (pole c - p0) <= / 65536 * (1 - p0) + 4 * / 16777216.
Proof. exact pole_accuracy. Qed.

(** exact step response with such a pole: at least 99.5 % (+ margin) of the step is covered
    after ceil(N) samples and between 40 % and 55 % (with margin) after ceil(N/10) *)
Theorem C14_time_constant_real : forall N p (n n10 : nat),
  100 <= N <= 480000 ->
  Rabs (p - ideal_pole N) <= / 65536 * (1 - ideal_pole N) + 4 * / 16777216 ->
  N <= INR n < N + 1 -> N / 10 <= INR n10 < N / 10 + 1 ->
  0.996 <= step_response p n /\ 0.41 <= step_response p n10 <= 0.54.
Proof. exact time_constant_real. Qed.

(** the f32 filter follows the exact step response: after a step from lo to hi (the filter at
    rest on lo) sample n of the output is lo + (hi - lo) * step_response p n up to the
    resolution *)
Theorem C14_step_tracks : forall d lo hi n kappa B,
  good (d_c d) -> kappa <= speed (d_c d) -> / 100000 <= kappa ->
  fin lo -> fin hi -> Rabs (R32 lo) <= B -> Rabs (R32 hi) <= B ->
  bpow radix2 (-100) <= B -> B <= bpow radix2 64 ->
  d_x1 d = lo -> d_y1 d = lo -> fin (d_x2 d) -> fin (d_y2 d) ->
  Rabs (R32 (d_x2 d)) <= B -> Rabs (R32 (d_y2 d)) <= B ->
  let '(_, ys) := run_const d hi (S n) in
  let y := last ys lo in
  Rabs (R32 y - (R32 lo + (R32 hi - R32 lo) * step_response (pole (d_c d)) n))
    <= 2 * resolution kappa * B.
Proof. exact step_tracks_partial. Qed.

(** times shorter than two samples select the fastest response: the cutoff is the maximum
    one, the coefficient set is the one a new processor starts with, and its pole is within
    2^-20 of zero, so the output settles within a few samples (C13_settles with p <= 2^-20) *)
Theorem C14_fastest : forall fs g0 g t,
  glide_fs_ok fs -> glide_new fs = Some g0 -> (exists ops, Forall op_time_ok ops /\ glide_after g0 ops = Some g) ->
  fin t -> 0 <= R32 t < 2 / R32 fs ->
  coeffs_for g t = Some (d_c (g_lpf g0)) /\
  Rabs (pole (d_c (g_lpf g0))) <= / 1048576.
Proof. exact fastest. Qed.

(** times above 10 s behave like 10 s: the same cutoff (the minimum one) is selected *)
Theorem C14_slowest : forall fs g0 g t,
  glide_fs_ok fs -> glide_new fs = Some g0 -> (exists ops, Forall op_time_ok ops /\ glide_after g0 ops = Some g) ->
  (fin t /\ 10 <= R32 t) \/ t = B754_infinity false ->
  glide_f0 g t = glide_f0 g (of_Z 10) /\ glide_f0 g t = g_min_fc g.
Proof. exact slowest. Qed.

(** a set_time call is honoured -- the coefficients of the requested time are installed and
    it becomes the time in effect -- unless the requested time is within 0.05 s (f32) of the
    time currently in effect, in which case nothing changes *)
Theorem C14_dead_band : forall g t,
  (is_almost t (g_cached_t g) GL_EPS = true -> glide_set_time g t = Some g) /\
  (is_almost t (g_cached_t g) GL_EPS = false ->
   forall g', glide_set_time g t = Some g' ->
     g_cached_t g' = t /\ Some (d_c (g_lpf g')) = coeffs_for g t /\
     d_y1 (g_lpf g') = d_y1 (g_lpf g) /\ d_x1 (g_lpf g') = d_x1 (g_lpf g)).
Proof. exact dead_band. Qed.

(** the dead-band test itself: |t - t_eff| <= 0.05 computed in f32 (false for NaN) *)
Theorem C14_dead_band_test : forall t c, fin t -> fin c ->
  Rabs (R32 t - R32 c) <= 1000000 ->
  (is_almost t c GL_EPS = true <-> Rabs (rnd (R32 t - R32 c)) <= R32 GL_EPS) /\
  R32 GL_EPS = 13421773 / 268435456.
Proof. exact dead_band_test. Qed.

Print Assumptions C14_pole_accuracy.
Print Assumptions C14_time_constant_real.
Print Assumptions C14_step_tracks.
Print Assumptions C14_fastest.
Print Assumptions C14_slowest.
Print Assumptions C14_dead_band.
Print Assumptions C14_dead_band_test.
