(** C16 — Ribbon position is the average of the current press only.
    Only the property theorems; proofs are in Proofs/RibbonProofs.v (window) and
    Proofs/RibbonValueProofs.v (range / bounds, floating point). *)
From Coq Require Import ZArith Bool List.
Import ListNotations.
From SU Require Import F32.
From SU.Model Require Import Ribbon.
From SU.Spec Require Import RibbonSpec.
From SU.Proofs Require Import RibbonProofs.
Open Scope Z_scope.

(** the ring buffer yields the last [cap] written values, oldest first *)
Theorem C16_histbuf : forall cap xs,
  (0 < cap)%nat ->
  hb_oldest_ordered (fold_left (hb_write cap) xs (hb_new cap)) = lastn cap xs.
Proof. exact histbuf_refines. Qed.

(** while a press is reported the stored value is a function of the capture window only:
    the last [cap] samples of the current unbroken run, of which the newest [discard]
    are excluded.  Hence it depends neither on earlier presses nor on the excluded
    newest samples. *)
Theorem C16_value_window : forall cap fs sp dr pu samples,
  (0 < cap)%nat ->
  let r0 := ribbon_new cap fs sp dr pu in
  rb_pressing (polls r0 samples) = true ->
  rb_val (polls r0 samples) = window_value r0 (window r0 samples).
Proof. exact value_window. Qed.

(** when no press is reported after a sample the value is retained unchanged *)
Theorem C16_retained : forall cap fs sp dr pu samples x,
  (0 < cap)%nat ->
  let r0 := ribbon_new cap fs sp dr pu in
  rb_pressing (polls r0 (samples ++ [x])) = false ->
  rb_val (polls r0 (samples ++ [x])) = rb_val (polls r0 samples).
Proof. exact value_retained. Qed.

Print Assumptions C16_histbuf.
Print Assumptions C16_value_window.
Print Assumptions C16_retained.
