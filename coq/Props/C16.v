(** C16 — Ribbon position is the average of the current press only.
    Only the property theorems; proofs are in Proofs/RibbonProofs.v (window) and
    Proofs/RibbonValueProofs.v (range / bounds, floating point). *)
From Coq Require Import ZArith Bool List Reals.
Import ListNotations.
From SU Require Import F32 F32Lemmas.
From SU.Model Require Import Ribbon.
From SU.Spec Require Import RibbonSpec.
From SU.Proofs Require Import RibbonProofs RibbonValueProofs.
From SU.Proofs Require Import RibbonExtraProofs.
From SU.Proofs Require Import RibbonKillers.
From SU.Proofs Require Import RibbonRetainProofs.
Open Scope Z_scope.

(** the ring buffer yields the last [cap] written values, oldest first *)
Theorem C16_histbuf : forall cap xs,
  (0 < cap)%nat ->
  hb_oldest_ordered (fold_left (hb_write cap) xs (hb_new cap)) = lastn cap xs.
Proof. exact histbuf_refines. Qed.

(** while a press is reported the stored value is a function of the capture window only:
    the last [cap] samples of the current unbroken run, of which the newest [discard]
    are excluded.  Hence it depends neither on earlier presses nor on the excluded
    newest samples. *)
Theorem C16_value_window : forall cap fs sp dr pu samples,
  (0 < cap)%nat ->
  let r0 := ribbon_new cap fs sp dr pu in
  rb_pressing (polls r0 samples) = true ->
  rb_val (polls r0 samples) = window_value r0 (window r0 samples).
Proof. exact value_window. Qed.

(** when no press is reported after a sample the value is retained unchanged *)
Theorem C16_retained : forall cap fs sp dr pu samples x,
  (0 < cap)%nat ->
  let r0 := ribbon_new cap fs sp dr pu in
  rb_pressing (polls r0 (samples ++ [x])) = false ->
  rb_val (polls r0 (samples ++ [x])) = rb_val (polls r0 samples).
Proof. exact value_retained. Qed.

(** ** the value itself (floating point) *)

(** value() always lies in [0, 1] (after any sample history, pressing or not; for a configuration satisfying
    config_ok -- shown for the property's whole quantifier in C16_config_ok_of_quantifier -- and finite samples) *)
Theorem C16_value_range : forall cap fs sp dr pu samples,
  let r0 := ribbon_new cap fs sp dr pu in
  config_ok r0 -> Forall sample_ok samples ->
  let r := polls r0 samples in
  fin (ribbon_value r) /\ (0 <= R32 (ribbon_value r) <= 1)%R.
Proof. exact value_range. Qed.

(** while a press is reported the stored value is the pull-up-corrected mean of the
    contributing samples (the oldest cap - discard samples of the capture window), up to
    the f32 rounding of the average *)
Theorem C16_value_is_corrected_mean : forall cap fs sp dr pu samples,
  let r0 := ribbon_new cap fs sp dr pu in
  config_ok r0 -> Forall sample_ok samples ->
  rb_pressing (polls r0 samples) = true ->
  let W := firstn (Z.to_nat (Z.of_nat cap - rb_discard r0)) (window r0 samples) in
  (Rabs (R32 (rb_val (polls r0 samples)) - corr_R (R32 (rb_err r0)) (mean_R W)) <= tau r0)%R.
Proof. exact value_is_corrected_mean. Qed.

(** consequences in the reals: the corrected mean lies between the corrected minimum and
    maximum of the contributing samples, and does not decrease when a contributing sample
    increases (the correction p - (p - p^2) e is monotone for e in [0, 1]) *)
Theorem C16_between : forall e (W : list f32) lo hi,
  (0 <= e <= 1)%R -> W <> [] ->
  (forall x, In x W -> (0 <= lo <= R32 x)%R /\ (R32 x <= hi <= 1)%R) ->
  (corr_R e lo <= corr_R e (mean_R W) <= corr_R e hi)%R.
Proof. exact corrected_mean_between. Qed.

Theorem C16_monotone : forall e (W1 W2 : list f32) (x y : f32),
  (0 <= e <= 1)%R -> (forall z, In z (W1 ++ x :: y :: W2) -> (0 <= R32 z <= 1)%R) ->
  (R32 x <= R32 y)%R ->
  (corr_R e (mean_R (W1 ++ x :: W2)) <= corr_R e (mean_R (W1 ++ y :: W2)))%R.
Proof. exact corrected_mean_monotone. Qed.

(** the configuration hypothesis of the theorems above holds for the property's whole quantifier: helper-sized buffer for any rate in [100, 192000], resistors with pull-up >= divider (softpot >= 1 ohm, dropper <= 10^7 softpot) *)
Open Scope R_scope.
Theorem C16_config_ok_of_quantifier : forall (fs : Z) (sp dr pu : f32),
  (100 <= fs <= 192000)%Z ->
  fin sp -> fin dr -> fin pu ->
  1 <= R32 sp -> 0 <= R32 dr <= 10000000 * R32 sp ->
  R32 sp + R32 dr <= R32 pu ->
  config_ok (ribbon_new (Z.to_nat (sample_rate_to_capacity fs)) (of_Z fs) sp dr pu).
Proof. exact config_ok_of_quantifier. Qed.
Close Scope R_scope.

(** non-vacuity: 10 kHz, 10k / 1k / 100k *)
Open Scope R_scope.
Theorem C16_config_ok_example :
  config_ok (ribbon_new (Z.to_nat (sample_rate_to_capacity 10000)) (of_Z 10000)
               (of_Z 10000) (of_Z 1000) (of_Z 100000)).
Proof. exact config_ok_example. Qed.
Close Scope R_scope.

(** the ratio bound is needed: dropper = 2^24 softpot makes the boundary 0 *)
Open Scope R_scope.
Theorem C16_config_ok_needs_ratio : forall cap fs,
  R32 (of_Z 1) + R32 (of_Z 16777216) <= R32 (of_Z 33554432) /\
  ~ config_ok (ribbon_new cap fs (of_Z 1) (of_Z 16777216) (of_Z 33554432)).
Proof. exact config_ok_needs_ratio. Qed.
Close Scope R_scope.

(** range, stated over the property's quantifier and arbitrary histories *)
Open Scope R_scope.
Theorem C16_range_quantified : forall (fs : Z) (sp dr pu : f32) (h : list rop),
  (100 <= fs <= 192000)%Z ->
  fin sp -> fin dr -> fin pu ->
  1 <= R32 sp -> 0 <= R32 dr <= 10000000 * R32 sp -> R32 sp + R32 dr <= R32 pu ->
  Forall sample_ok (samples_of h) ->
  let r0 := ribbon_new (Z.to_nat (sample_rate_to_capacity fs)) (of_Z fs) sp dr pu in
  let r := rrun r0 h in
  fin (ribbon_value r) /\ 0 <= R32 (ribbon_value r) <= 1.
Proof. exact C16_range_quantified. Qed.
Close Scope R_scope.

(** corrected mean, stated over the property's quantifier and arbitrary histories *)
Open Scope R_scope.
Theorem C16_value_quantified : forall (fs : Z) (sp dr pu : f32) (h : list rop),
  (100 <= fs <= 192000)%Z ->
  fin sp -> fin dr -> fin pu ->
  1 <= R32 sp -> 0 <= R32 dr <= 10000000 * R32 sp -> R32 sp + R32 dr <= R32 pu ->
  Forall sample_ok (samples_of h) ->
  let r0 := ribbon_new (Z.to_nat (sample_rate_to_capacity fs)) (of_Z fs) sp dr pu in
  rb_pressing (rrun r0 h) = true ->
  Rabs (R32 (rb_val (rrun r0 h))
        - corr_R (R32 (rb_err r0)) (mean_R (contributing r0 (samples_of h)))) <= tau r0.
Proof. exact C16_value_quantified. Qed.
Close Scope R_scope.

(** the value is a function of the contributing samples only *)
Open Scope R_scope.
Theorem C16_independent : forall cap fs sp dr pu samples1 samples2,
  (0 < cap)%nat ->
  let r0 := ribbon_new cap fs sp dr pu in
  rb_pressing (polls r0 samples1) = true ->
  rb_pressing (polls r0 samples2) = true ->
  firstn (Z.to_nat (Z.of_nat cap - rb_discard r0)) (window r0 samples1)
  = firstn (Z.to_nat (Z.of_nat cap - rb_discard r0)) (window r0 samples2) ->
  rb_val (polls r0 samples1) = rb_val (polls r0 samples2) /\
  ribbon_value (polls r0 samples1) = ribbon_value (polls r0 samples2).
Proof. exact C16_independent. Qed.
Close Scope R_scope.

(** no sample of an earlier press matters *)
Open Scope R_scope.
Theorem C16_independent_of_earlier_press : forall cap fs sp dr pu pre1 x1 pre2 x2 after,
  (0 < cap)%nat ->
  let r0 := ribbon_new cap fs sp dr pu in
  in_range r0 x1 = false -> in_range r0 x2 = false ->
  rb_pressing (polls r0 (pre1 ++ x1 :: after)) = true ->
  rb_pressing (polls r0 (pre2 ++ x2 :: after)) = true /\
  rb_val (polls r0 (pre1 ++ x1 :: after)) = rb_val (polls r0 (pre2 ++ x2 :: after)) /\
  ribbon_value (polls r0 (pre1 ++ x1 :: after)) = ribbon_value (polls r0 (pre2 ++ x2 :: after)).
Proof. exact C16_independent_of_earlier_press. Qed.
Close Scope R_scope.

(** none of the newest samples inside the finger-lift allowance matters *)
Open Scope R_scope.
Theorem C16_independent_of_newest : forall cap fs sp dr pu older new1 new2,
  (0 < cap)%nat ->
  let r0 := ribbon_new cap fs sp dr pu in
  length new1 = length new2 -> (Z.of_nat (length new1) <= rb_discard r0)%Z ->
  Forall (fun y => in_range r0 y = true) new1 ->
  Forall (fun y => in_range r0 y = true) new2 ->
  rb_pressing (polls r0 (older ++ new1)) = true ->
  rb_pressing (polls r0 (older ++ new2)) = true /\
  rb_val (polls r0 (older ++ new1)) = rb_val (polls r0 (older ++ new2)) /\
  ribbon_value (polls r0 (older ++ new1)) = ribbon_value (polls r0 (older ++ new2)).
Proof. exact C16_independent_of_newest. Qed.
Close Scope R_scope.

(** between, for the f32 value() itself (after the rescale by 1/boundary, capped at 1), with tolerance
    2 tau / b, b the rescale boundary: informative for realistic resistor ratios (explicit constant in
    C16_between_f32_realistic); for a dropper thousands of times the softpot b approaches one ulp and the
    bound says no more than the range theorem *)
Open Scope R_scope.
Theorem C16_between_f32 : forall cap fs sp dr pu samples lo hi,
  let r0 := ribbon_new cap fs sp dr pu in
  config_ok r0 -> Forall sample_ok samples ->
  rb_pressing (polls r0 samples) = true ->
  (forall x, In x (contributing r0 samples) -> (0 <= lo <= R32 x) /\ (R32 x <= hi <= 1)) ->
  let e := R32 (rb_err r0) in
  let b := R32 (rb_boundary r0) in
  let v := R32 (ribbon_value (polls r0 samples)) in
  full_scale b (corr_R e lo) - 2 * tau r0 / b <= v <= full_scale b (corr_R e hi) + 2 * tau r0 / b /\
  corr_R e lo - 2 * tau r0 <= v.
Proof. exact C16_between_f32. Qed.
Close Scope R_scope.

(** monotone, for the f32 value() itself: raising a contributing sample lowers value() by at most 2 tau / boundary + tau / 4 *)
Open Scope R_scope.
Theorem C16_monotone_f32 : forall cap fs sp dr pu samples1 samples2 W1 W2 x y,
  let r0 := ribbon_new cap fs sp dr pu in
  config_ok r0 -> Forall sample_ok samples1 -> Forall sample_ok samples2 ->
  rb_pressing (polls r0 samples1) = true -> rb_pressing (polls r0 samples2) = true ->
  contributing r0 samples1 = W1 ++ x :: W2 ->
  contributing r0 samples2 = W1 ++ y :: W2 ->
  R32 x <= R32 y ->
  let b := R32 (rb_boundary r0) in
  R32 (ribbon_value (polls r0 samples1)) - (2 * tau r0 / b + tau r0 / 4)
  <= R32 (ribbon_value (polls r0 samples2)).
Proof. exact C16_monotone_f32. Qed.
Close Scope R_scope.

(** how many samples contribute and how many newest ones are excluded, in closed form *)
Theorem C16_contributing_count : forall (fs : Z) sp dr pu,
  100 <= fs <= 192000 ->
  let cap := Z.to_nat (sample_rate_to_capacity fs) in
  let r0 := ribbon_new cap (of_Z fs) sp dr pu in
  Z.of_nat cap - rb_discard r0 = fs * 15 / 1000 + 1 /\
  rb_discard r0 = fs / 500.
Proof. exact contributing_count. Qed.

(** the power-on state *)
Theorem C16_new_state : forall cap fs sp dr pu,
  let r0 := ribbon_new cap fs sp dr pu in
  rb_cap r0 = cap /\ rb_pressing r0 = false /\
  rb_just_pressed r0 = false /\ rb_just_released r0 = false /\
  rb_val r0 = f_0 /\ ribbon_value r0 = fmin (fdiv f_0 (rb_boundary r0)) f_1 /\
  rb_boundary r0 = fsub f_1 (fdiv dr (fadd dr sp)) /\
  rb_err r0 = fdiv (fadd sp dr) pu.
Proof. exact ribbon_new_state. Qed.

(** the value stays 0.0 until the first press is reported *)
Theorem C16_value_before_first_press : forall cap fs sp dr pu samples,
  (0 < cap)%nat ->
  let r0 := ribbon_new cap fs sp dr pu in
  (forall n, rb_pressing (polls r0 (firstn n samples)) = false) ->
  rb_val (polls r0 samples) = f_0 /\ ribbon_value (polls r0 samples) = ribbon_value r0.
Proof. exact value_before_first_press. Qed.

(** the configuration (boundary, error constant, capacity, settling and finger-lift counts) never changes after construction *)
Open Scope R_scope.
Theorem C16_config_constant : forall (r0 : ribbon) (h : list rop),
  rb_boundary (rrun r0 h) = rb_boundary r0 /\ rb_err (rrun r0 h) = rb_err r0 /\
  rb_cap (rrun r0 h) = rb_cap r0 /\ rb_ignore (rrun r0 h) = rb_ignore r0 /\
  rb_discard (rrun r0 h) = rb_discard r0.
Proof. exact config_constant. Qed.
Close Scope R_scope.

(** retention stated for the public value() itself, over histories with edge polls *)
Open Scope R_scope.
Theorem C16_value_retained : forall cap fs sp dr pu (h : list rop) (o : rop),
  let r0 := ribbon_new cap fs sp dr pu in
  rb_pressing (rrun r0 (h ++ [o])) = false ->
  ribbon_value (rrun r0 (h ++ [o])) = ribbon_value (rrun r0 h).
Proof. exact ribbon_value_retained. Qed.
Close Scope R_scope.

(** the last value is retained bit for bit over any stretch in which no press is reported *)
Open Scope R_scope.
Theorem C16_value_retained_after_release : forall cap fs sp dr pu (h1 h2 : list rop),
  let r0 := ribbon_new cap fs sp dr pu in
  (forall n, (0 < n <= length h2)%nat -> rb_pressing (rrun r0 (h1 ++ firstn n h2)) = false) ->
  rb_val (rrun r0 (h1 ++ h2)) = rb_val (rrun r0 h1) /\
  ribbon_value (rrun r0 (h1 ++ h2)) = ribbon_value (rrun r0 h1).
Proof. exact value_retained_after_release. Qed.
Close Scope R_scope.

(** the rescale boundary is at least 1/(K+1) - 2^-22 when the dropper is at most K times the softpot *)
Open Scope R_scope.
Theorem C16_boundary_lower_bound : forall cap fs (sp dr pu : f32) (K : R),
  fin sp -> fin dr -> 1 <= R32 sp -> 0 <= R32 dr <= K * R32 sp ->
  let b := rb_boundary (ribbon_new cap fs sp dr pu) in
  fin b /\ / (K + 1) - / 4194304 <= R32 b <= 1.
Proof. exact boundary_lower_bound. Qed.
Close Scope R_scope.

(** a relative form of that bound is false (three roundings) *)
Open Scope R_scope.
Theorem C16_boundary_relative_bound_false :
  let sp := of_bits 1065353217 in
  let dr := of_bits 1091567617 in
  fin sp /\ fin dr /\ 1 <= R32 sp /\ 0 <= R32 dr <= 9 * R32 sp /\
  forall cap fs pu,
    R32 (rb_boundary (ribbon_new cap fs sp dr pu)) < / (9 + 1) * (1 - / 4194304).
Proof. exact boundary_relative_bound_false. Qed.
Close Scope R_scope.

(** between, for value(), with an explicit tolerance for dropper <= softpot: 4.0001 tau *)
Open Scope R_scope.
Theorem C16_between_f32_realistic : forall cap fs sp dr pu samples lo hi,
  let r0 := ribbon_new cap fs sp dr pu in
  config_ok r0 ->
  fin sp -> fin dr -> 1 <= R32 sp -> 0 <= R32 dr <= R32 sp ->
  Forall sample_ok samples ->
  rb_pressing (polls r0 samples) = true ->
  (forall x, In x (contributing r0 samples) -> (0 <= lo <= R32 x) /\ (R32 x <= hi <= 1)) ->
  let e := R32 (rb_err r0) in
  let b := R32 (rb_boundary r0) in
  let v := R32 (ribbon_value (polls r0 samples)) in
  49999 / 100000 <= b <= 1 /\
  full_scale b (corr_R e lo) - 40001 / 10000 * tau r0 <= v
    <= full_scale b (corr_R e hi) + 40001 / 10000 * tau r0 /\
  corr_R e lo - 2 * tau r0 <= v.
Proof. exact C16_between_f32_realistic. Qed.
Close Scope R_scope.

(** monotone, likewise: 4.2501 tau *)
Open Scope R_scope.
Theorem C16_monotone_f32_realistic : forall cap fs sp dr pu samples1 samples2 W1 W2 x y,
  let r0 := ribbon_new cap fs sp dr pu in
  config_ok r0 ->
  fin sp -> fin dr -> 1 <= R32 sp -> 0 <= R32 dr <= R32 sp ->
  Forall sample_ok samples1 -> Forall sample_ok samples2 ->
  rb_pressing (polls r0 samples1) = true -> rb_pressing (polls r0 samples2) = true ->
  contributing r0 samples1 = W1 ++ x :: W2 ->
  contributing r0 samples2 = W1 ++ y :: W2 ->
  R32 x <= R32 y ->
  R32 (ribbon_value (polls r0 samples1)) - (40001 / 10000 * tau r0 + tau r0 / 4)
  <= R32 (ribbon_value (polls r0 samples2)).
Proof. exact C16_monotone_f32_realistic. Qed.
Close Scope R_scope.

Print Assumptions C16_histbuf.
Print Assumptions C16_value_window.
Print Assumptions C16_retained.
Print Assumptions C16_value_range.
Print Assumptions C16_value_is_corrected_mean.
Print Assumptions C16_between.
Print Assumptions C16_monotone.
Print Assumptions C16_config_ok_of_quantifier.
Print Assumptions C16_config_ok_example.
Print Assumptions C16_config_ok_needs_ratio.
Print Assumptions C16_range_quantified.
Print Assumptions C16_value_quantified.
Print Assumptions C16_independent.
Print Assumptions C16_independent_of_earlier_press.
Print Assumptions C16_independent_of_newest.
Print Assumptions C16_between_f32.
Print Assumptions C16_monotone_f32.
Print Assumptions C16_contributing_count.
Print Assumptions C16_new_state.
Print Assumptions C16_value_before_first_press.
Print Assumptions C16_config_constant.
Print Assumptions C16_value_retained.
Print Assumptions C16_value_retained_after_release.
Print Assumptions C16_boundary_lower_bound.
Print Assumptions C16_boundary_relative_bound_false.
Print Assumptions C16_between_f32_realistic.
Print Assumptions C16_monotone_f32_realistic.
