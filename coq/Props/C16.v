(** C16 — Ribbon position is the average of the current press only.
    Only the property theorems; proofs are in Proofs/RibbonProofs.v (window) and
    Proofs/RibbonValueProofs.v (range / bounds, floating point). *)
From Coq Require Import ZArith Bool List Reals.
Import ListNotations.
From SU Require Import F32 F32Lemmas.
From SU.Model Require Import Ribbon.
From SU.Spec Require Import RibbonSpec.
From SU.Proofs Require Import RibbonProofs RibbonValueProofs.
Open Scope Z_scope.

(** the ring buffer yields the last [cap] written values, oldest first *)
Theorem C16_histbuf : forall cap xs,
  (0 < cap)%nat ->
  hb_oldest_ordered (fold_left (hb_write cap) xs (hb_new cap)) = lastn cap xs.
Proof. exact histbuf_refines. Qed.

(** while a press is reported the stored value is a function of the capture window only:
    the last [cap] samples of the current unbroken run, of which the newest [discard]
    are excluded.  Hence it depends neither on earlier presses nor on the excluded
    newest samples. *)
Theorem C16_value_window : forall cap fs sp dr pu samples,
  (0 < cap)%nat ->
  let r0 := ribbon_new cap fs sp dr pu in
  rb_pressing (polls r0 samples) = true ->
  rb_val (polls r0 samples) = window_value r0 (window r0 samples).
Proof. exact value_window. Qed.

(** when no press is reported after a sample the value is retained unchanged *)
Theorem C16_retained : forall cap fs sp dr pu samples x,
  (0 < cap)%nat ->
  let r0 := ribbon_new cap fs sp dr pu in
  rb_pressing (polls r0 (samples ++ [x])) = false ->
  rb_val (polls r0 (samples ++ [x])) = rb_val (polls r0 samples).
Proof. exact value_retained. Qed.

(** ** the value itself (floating point) *)

(** value() always lies in [0, 1] (after any history, pressing or not) *)
Theorem C16_value_range : forall cap fs sp dr pu samples,
  let r0 := ribbon_new cap fs sp dr pu in
  config_ok r0 -> Forall sample_ok samples ->
  let r := polls r0 samples in
  fin (ribbon_value r) /\ (0 <= R32 (ribbon_value r) <= 1)%R.
Proof. exact value_range. Qed.

(** while a press is reported the stored value is the pull-up-corrected mean of the
    contributing samples (the oldest cap - discard samples of the capture window), up to
    the f32 rounding of the average *)
Theorem C16_value_is_corrected_mean : forall cap fs sp dr pu samples,
  let r0 := ribbon_new cap fs sp dr pu in
  config_ok r0 -> Forall sample_ok samples ->
  rb_pressing (polls r0 samples) = true ->
  let W := firstn (Z.to_nat (Z.of_nat cap - rb_discard r0)) (window r0 samples) in
  (Rabs (R32 (rb_val (polls r0 samples)) - corr_R (R32 (rb_err r0)) (mean_R W)) <= tau r0)%R.
Proof. exact value_is_corrected_mean. Qed.

(** consequences in the reals: the corrected mean lies between the corrected minimum and
    maximum of the contributing samples, and does not decrease when a contributing sample
    increases (the correction p - (p - p^2) e is monotone for e in [0, 1]) *)
Theorem C16_between : forall e (W : list f32) lo hi,
  (0 <= e <= 1)%R -> W <> [] ->
  (forall x, In x W -> (0 <= lo <= R32 x)%R /\ (R32 x <= hi <= 1)%R) ->
  (corr_R e lo <= corr_R e (mean_R W) <= corr_R e hi)%R.
Proof. exact corrected_mean_between. Qed.

Theorem C16_monotone : forall e (W1 W2 : list f32) (x y : f32),
  (0 <= e <= 1)%R -> (forall z, In z (W1 ++ x :: y :: W2) -> (0 <= R32 z <= 1)%R) ->
  (R32 x <= R32 y)%R ->
  (corr_R e (mean_R (W1 ++ x :: W2)) <= corr_R e (mean_R (W1 ++ y :: W2)))%R.
Proof. exact corrected_mean_monotone. Qed.

Print Assumptions C16_histbuf.
Print Assumptions C16_value_window.
Print Assumptions C16_retained.
Print Assumptions C16_value_range.
Print Assumptions C16_value_is_corrected_mean.
Print Assumptions C16_between.
Print Assumptions C16_monotone.
