(** C03 — ADSR output is continuous: no steps, no clicks on gate events.
    Only the property theorem; the proof is in Proofs/AdsrContinuityProofs.v. *)
From Coq Require Import ZArith Bool List Reals.
Import ListNotations.
From SU Require Import F32 F32Lemmas.
From SU.Model Require Import PhaseAcc Adsr.
From SU.Spec Require Import AdsrSpec.
From SU.Proofs Require Import AdsrContinuityProofs.
From SU.Proofs Require Import AdsrTrace2Proofs.
From SU.Proofs Require Import AdsrTraceProofs.
Open Scope R_scope.

(** steepest slope of the active curve (per whole phase): slightly above the derivative of
    the RC curves at 0, (4/3)/(1-e^(-4/3)) = 1.8107 and 4/(1-e^-4) = 4.0746, to absorb the
    1024-cell piecewise-linear discretisation; 0 where the output does not move by itself *)
Definition slope (p : phase) : R :=
  match p with Attack => 1.82 | Decay | Release => 4.08 | Sustain | AtRest => 0 end.

Definition is_event (o : adsr_op) : Prop := o <> ATick.

(** from one tick to the next -- with any gate events and parameter changes in between --
    the output changes by no more than the steepest slope of the curve of the phase in
    which the tick starts times the fraction of the phase one tick covers (inc / 2^24, at
    most 1), plus the change the caller made to the sustain level, plus 8 * 2^-24 for
    f32 rounding.  This covers arbitrarily slow phases (interpolation, not a staircase),
    the first tick after a gate-on or gate-off at any moment (the new segment starts from
    the level currently being output) and every phase boundary. *)
Theorem C03_step_bound : forall s evs,
  Inv s -> synced s -> Forall is_event evs ->
  let s1 := fold_left adsr_step evs s in
  (adsr_inc s1 <= 4278190080)%Z ->
  let s2 := adsr_step s1 ATick in
  Rabs (R32 (a_value s2) - R32 (a_value s))
    <= slope (a_state s1) * Rmin 1 (IZR (adsr_inc s1) / 16777216)
       + Rabs (R32 (a_sustain s1) - R32 (a_sustain s)) + 8 * / 16777216.
Proof. exact step_bound. Qed.

(** the first two hypotheses are met by every reachable state right after a tick; the third (the
    increment bound) and the composition are discharged in C03_trace_step_bound below *)
Theorem C03_applicable : forall fs ops,
  Inv (adsr_run fs ops) /\ synced (adsr_run fs (ops ++ [ATick])).
Proof. exact step_bound_applicable. Qed.

(** trace level, with only the property's own quantifier as hypothesis: for every legal rate, every history ending in a tick, and any gate events and parameter changes before the next tick, the output moves by at most slope * phase step + the sustain change + 8*2^-24 (every hypothesis of C03_step_bound is discharged for reachable states) *)
Theorem C03_trace_step_bound : forall fs pre evs, fs_ok fs -> Forall is_event evs ->
  let s := adsr_run fs (pre ++ [ATick]) in
  let s1 := fold_left adsr_step evs s in
  let s2 := adsr_step s1 ATick in
  Rabs (R32 (a_value s2) - R32 (a_value s))
    <= slope (a_state s1) * Rmin 1 (IZR (adsr_inc s1) / 16777216)
       + Rabs (R32 (a_sustain s1) - R32 (a_sustain s)) + 8 * / 16777216.
Proof. exact C03_trace_step_bound. Qed.

(** the same for the very first tick of a new envelope *)
Theorem C03_trace_first_step_bound : forall fs evs, fs_ok fs -> Forall is_event evs ->
  let s := adsr_new fs in
  let s1 := fold_left adsr_step evs s in
  let s2 := adsr_step s1 ATick in
  Rabs (R32 (a_value s2) - R32 (a_value s))
    <= slope (a_state s1) * Rmin 1 (IZR (adsr_inc s1) / 16777216)
       + Rabs (R32 (a_sustain s1) - R32 (a_sustain s)) + 8 * / 16777216.
Proof. exact C03_trace_first_step_bound. Qed.

(** non-vacuity: a re-trigger from sustain (moves 0.0090, bound 0.0182) *)
Theorem C03_trace_example_gate_on :
  let s := adsr_run FS1k (exA_pre ++ [ATick]) in
  let s1 := fold_left adsr_step [AGateOn] s in
  let s2 := adsr_step s1 ATick in
  a_state s = Sustain /\ a_state s1 = Attack /\ a_state s2 = Attack /\
  adsr_inc s1 = 167772%Z /\
  to_bits (a_value s) = Some 1056964608%Z /\ to_bits (a_von s1) = Some 1056964608%Z /\
  to_bits (a_value s2) = Some 1057115629%Z /\
  a_sustain s1 = a_sustain s /\
  R32 (a_value s2) - R32 (a_value s) = 151021 / 16777216 /\
  Rabs (R32 (a_value s2) - R32 (a_value s))
    <= 1.82 * (167772 / 16777216) + 8 * / 16777216.
Proof. exact C03_trace_example_gate_on. Qed.

(** non-vacuity: sustain change and gate-off between two decay ticks (the intermediate state is not in sync; moves 0.0377, bound 0.2908) *)
Theorem C03_trace_example_sustain_gate_off :
  let s := adsr_run FS1k (exB_pre ++ [ATick]) in
  let s1 := fold_left adsr_step [ASetSustain F025; AGateOff] s in
  let s2 := adsr_step s1 ATick in
  a_state s = Decay /\ pa_acc (a_pa s) = 503316%Z /\
  ~ synced (adsr_step s (ASetSustain F025)) /\
  a_state s1 = Release /\ a_state s2 = Release /\ adsr_inc s1 = 167772%Z /\
  to_bits (a_value s) = Some 1064386062%Z /\ to_bits (a_voff s1) = Some 1064386062%Z /\
  to_bits (a_value s2) = Some 1063753992%Z /\
  R32 (a_sustain s) = 1 / 2 /\ R32 (a_sustain s1) = 1 / 4 /\
  R32 (a_value s2) - R32 (a_value s) = - (632070 / 16777216) /\
  Rabs (R32 (a_value s2) - R32 (a_value s))
    <= 4.08 * (167772 / 16777216) + 1 / 4 + 8 * / 16777216.
Proof. exact C03_trace_example_sustain_gate_off. Qed.

Print Assumptions C03_step_bound.
Print Assumptions C03_applicable.
Print Assumptions C03_trace_step_bound.
Print Assumptions C03_trace_first_step_bound.
Print Assumptions C03_trace_example_gate_on.
Print Assumptions C03_trace_example_sustain_gate_off.
