(** C03 — ADSR output is continuous: no steps, no clicks on gate events.
    Only the property theorem; the proof is in Proofs/AdsrContinuityProofs.v. *)
From Coq Require Import ZArith Bool List Reals.
Import ListNotations.
From SU Require Import F32 F32Lemmas.
From SU.Model Require Import PhaseAcc Adsr.
From SU.Spec Require Import AdsrSpec.
From SU.Proofs Require Import AdsrContinuityProofs.
Open Scope R_scope.

(** steepest slope of the active curve (per whole phase): slightly above the derivative of
    the RC curves at 0, (4/3)/(1-e^(-4/3)) = 1.8107 and 4/(1-e^-4) = 4.0746, to absorb the
    1024-cell piecewise-linear discretisation; 0 where the output does not move by itself *)
Definition slope (p : phase) : R :=
  match p with Attack => 1.82 | Decay | Release => 4.08 | Sustain | AtRest => 0 end.

Definition is_event (o : adsr_op) : Prop := o <> ATick.

(** from one tick to the next -- with any gate events and parameter changes in between --
    the output changes by no more than the steepest slope of the curve of the phase in
    which the tick starts times the fraction of the phase one tick covers (inc / 2^24, at
    most 1), plus the change the caller made to the sustain level, plus 8 * 2^-24 for
    f32 rounding.  This covers arbitrarily slow phases (interpolation, not a staircase),
    the first tick after a gate-on or gate-off at any moment (the new segment starts from
    the level currently being output) and every phase boundary. *)
Theorem C03_step_bound : forall s evs,
  Inv s -> synced s -> Forall is_event evs ->
  let s1 := fold_left adsr_step evs s in
  (adsr_inc s1 <= 4278190080)%Z ->
  let s2 := adsr_step s1 ATick in
  Rabs (R32 (a_value s2) - R32 (a_value s))
    <= slope (a_state s1) * Rmin 1 (IZR (adsr_inc s1) / 16777216)
       + Rabs (R32 (a_sustain s1) - R32 (a_sustain s)) + 8 * / 16777216.
Proof. exact step_bound. Qed.

(** the hypotheses are met by every reachable state right after a tick *)
Theorem C03_applicable : forall fs ops,
  Inv (adsr_run fs ops) /\ synced (adsr_run fs (ops ++ [ATick])).
Proof. exact step_bound_applicable. Qed.

Print Assumptions C03_step_bound.
Print Assumptions C03_applicable.
