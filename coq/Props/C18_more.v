(** C18, continued — theorems whose proofs (Proofs/MidiExtraProofs.v) use the views defined in
    Props/C18.v.  Only the property theorems. *)
From Coq Require Import ZArith Bool List Reals.
Import ListNotations.
From SU Require Import F32 F32Lemmas.
From SU.Model Require Import Midi.
From SU.Spec Require Import MidiSpec.
From SU.Props Require C18.
From SU.Proofs Require Import MidiExtraProofs.
From SU.Proofs Require Import MidiKillers.
From SU.Proofs Require Import MidiKillers2.
From SU.Spec Require Import RunSpec.
From SU.Proofs Require Import MidiLiftProofs.
Open Scope Z_scope.

(** pitch bend on the listened channel from ANY state: only the bend output changes *)
Theorem C18_pitch_bend_any_state : forall r msb lsb,
  0 <= msb < 128 -> 0 <= lsb < 128 ->
  apply_msg r (MPitchBend (r_channel r) msb lsb) =
  mkRx (r_parser r) (r_channel r) (r_note r) (r_velocity r)
       (C18.bend (128 * msb + lsb))
       (r_mod_wheel r) (r_volume r) (r_cutoff r) (r_resonance r) (r_porta_time r)
       (r_porta_en r) (r_sustain_en r) (r_gate r) (r_rising r) (r_falling r) (r_retrig r)
       (r_prio r) (r_held r).
Proof. exact C18_pitch_bend_any_state. Qed.
(** the same through the two views *)
Theorem C18_pitch_bend_views : forall r msb lsb,
  0 <= msb < 128 -> 0 <= lsb < 128 ->
  let r' := apply_msg r (MPitchBend (r_channel r) msb lsb) in
  r_pitch_bend r' = C18.bend (128 * msb + lsb) /\
  (r_mod_wheel r', r_volume r', r_cutoff r', r_resonance r', r_porta_time r', r_porta_en r',
   r_sustain_en r')
  = (r_mod_wheel r, r_volume r, r_cutoff r, r_resonance r, r_porta_time r, r_porta_en r,
     r_sustain_en r) /\
  C18.note_view r' = C18.note_view r.
Proof. exact C18_pitch_bend_views. Qed.

(** a control change on another channel changes nothing *)
Theorem C18_other_channel_cc : forall r ch c v,
  ch <> r_channel r -> apply_msg r (MControlChange ch c v) = r.
Proof. exact C18_other_channel_cc. Qed.

(** a pitch bend on another channel changes nothing *)
Theorem C18_other_channel_pitch_bend : forall r ch msb lsb,
  ch <> r_channel r -> apply_msg r (MPitchBend ch msb lsb) = r.
Proof. exact C18_other_channel_pitch_bend. Qed.

(** controller 123 (the exception in C18_notes_untouched) clears the held notes, drops the gate, latches the falling edge if the gate was high, and touches no controller output *)
Theorem C18_all_notes_off : forall r v,
  handle_cc r 123 v =
  mkRx (r_parser r) (r_channel r) (r_note r) (r_velocity r) (r_pitch_bend r) (r_mod_wheel r)
       (r_volume r) (r_cutoff r) (r_resonance r) (r_porta_time r) (r_porta_en r)
       (r_sustain_en r)
       false false (if r_gate r then true else r_falling r)
       (r_retrig r) (r_prio r) [].
Proof. exact C18_all_notes_off. Qed.

(** every controller not in the table is ignored entirely *)
Theorem C18_unknown_controller_ignored : forall r c v,
  c <> 1 -> c <> 7 -> c <> 71 -> c <> 74 -> c <> 5 -> c <> 65 -> c <> 64 -> c <> 121 ->
  c <> 123 ->
  handle_cc r c v = r.
Proof. exact C18_unknown_controller_ignored. Qed.

(** every one of the 16384 bend values: the rounded quotient (x - 8192) / 8191 above centre, / 8192 below *)
Theorem C18_pitch_bend_value : forall x, 0 <= x <= 16383 ->
  let v := x - 8192 in
  fin (value14_to_f32 (x / 128) (x mod 128)) /\
  R32 (value14_to_f32 (x / 128) (x mod 128))
  = rnd (IZR v / IZR (if 0 <? v then 8191 else 8192)).
Proof. exact pitch_bend_value. Qed.

(** "interleaved with note traffic": a note-on changes none of the eight controller outputs *)
Theorem C18_note_on_keeps_controllers : forall r n v,
  ctrl8 (handle_note_on r n v) = ctrl8 r.
Proof. exact C18_note_on_keeps_controllers. Qed.

(** nor does a note-off *)
Theorem C18_note_off_keeps_controllers : forall r n,
  ctrl8 (handle_note_off r n) = ctrl8 r.
Proof. exact C18_note_off_keeps_controllers. Qed.

(** nor the edge polls *)
Theorem C18_polls_keep_controllers : forall r,
  ctrl8 (snd (rx_rising_gate r)) = ctrl8 r /\ ctrl8 (snd (rx_falling_gate r)) = ctrl8 r.
Proof. exact C18_polls_keep_controllers. Qed.

(** nor the mode setters *)
Theorem C18_mode_setters_keep_controllers : forall r p b,
  ctrl8 (rx_set_prio r p) = ctrl8 r /\ ctrl8 (rx_set_retrig r b) = ctrl8 r.
Proof. exact C18_mode_setters_keep_controllers. Qed.

(** one step, all eight outputs: each is overwritten by its own controller (or pitch bend), reset by CC 121, and kept by everything else *)
Theorem C18_controllers_step : forall r o,
  let c := r_channel r in
  ctrl8 (fst (mstep r o)) =
  (upd (pb_write c o) (r_pitch_bend r),
   upd (cc_write c 1 o) (r_mod_wheel r),
   upd (cc_write c 7 o) (r_volume r),
   upd (cc_write c 71 o) (r_cutoff r),
   upd (cc_write c 74 o) (r_resonance r),
   upd (cc_write c 5 o) (r_porta_time r),
   upd (sw_write c 65 o) (r_porta_en r),
   upd (sw_write c 64 o) (r_sustain_en r)).
Proof. exact C18_controllers_step. Qed.

(** trace level: after ANY history of messages, polls and mode changes every controller output is the value written by the most recent message that addresses it (power-on default if none) *)
Theorem C18_controllers_trace : forall ch h,
  ctrl8 (mrun ch h) = ctrl_spec (Z.min ch 15) h.
Proof. exact C18_controllers_trace. Qed.

(** the same at byte level *)
Theorem C18_controllers_trace_bytes : forall ch ops,
  ctrl8 (rx_run (rx_new ch) ops) = ctrl_spec (Z.min ch 15) (lift Idle ops).
Proof. exact C18_controllers_trace_bytes. Qed.

(** non-vacuity *)
Theorem C18_controllers_trace_example :
  let r := mrun 2 k2_example_history in
  let r' := mrun 2 (k2_example_history ++ [OMsg (MControlChange 2 121 0)]) in
  r_pitch_bend r = f_1 /\ r_volume r = f_1 /\ r_mod_wheel r = f_0 /\
  r_porta_en r = true /\ r_sustain_en r = false /\ r_gate r = false /\
  r_pitch_bend r' = f_0 /\ r_volume r' = f_0 /\ r_sustain_en r' = true.
Proof. exact C18_controllers_trace_example. Qed.

Print Assumptions C18_pitch_bend_any_state.
Print Assumptions C18_pitch_bend_views.
Print Assumptions C18_other_channel_cc.
Print Assumptions C18_other_channel_pitch_bend.
Print Assumptions C18_all_notes_off.
Print Assumptions C18_unknown_controller_ignored.
Print Assumptions C18_pitch_bend_value.
Print Assumptions C18_note_on_keeps_controllers.
Print Assumptions C18_note_off_keeps_controllers.
Print Assumptions C18_polls_keep_controllers.
Print Assumptions C18_mode_setters_keep_controllers.
Print Assumptions C18_controllers_step.
Print Assumptions C18_controllers_trace.
Print Assumptions C18_controllers_trace_bytes.
Print Assumptions C18_controllers_trace_example.
