(** C18, continued — theorems whose proofs (Proofs/MidiExtraProofs.v) use the views defined in
    Props/C18.v.  Only the property theorems. *)
From Coq Require Import ZArith Bool List Reals.
Import ListNotations.
From SU Require Import F32 F32Lemmas.
From SU.Model Require Import Midi.
From SU.Spec Require Import MidiSpec.
From SU.Props Require C18.
From SU.Proofs Require Import MidiExtraProofs.
From SU.Proofs Require Import MidiKillers.
Open Scope Z_scope.

(** pitch bend on the listened channel from ANY state: only the bend output changes *)
Theorem C18_pitch_bend_any_state : forall r msb lsb,
  0 <= msb < 128 -> 0 <= lsb < 128 ->
  apply_msg r (MPitchBend (r_channel r) msb lsb) =
  mkRx (r_parser r) (r_channel r) (r_note r) (r_velocity r)
       (C18.bend (128 * msb + lsb))
       (r_mod_wheel r) (r_volume r) (r_cutoff r) (r_resonance r) (r_porta_time r)
       (r_porta_en r) (r_sustain_en r) (r_gate r) (r_rising r) (r_falling r) (r_retrig r)
       (r_prio r) (r_held r).
Proof. exact C18_pitch_bend_any_state. Qed.
(** the same through the two views *)
Theorem C18_pitch_bend_views : forall r msb lsb,
  0 <= msb < 128 -> 0 <= lsb < 128 ->
  let r' := apply_msg r (MPitchBend (r_channel r) msb lsb) in
  r_pitch_bend r' = C18.bend (128 * msb + lsb) /\
  (r_mod_wheel r', r_volume r', r_cutoff r', r_resonance r', r_porta_time r', r_porta_en r',
   r_sustain_en r')
  = (r_mod_wheel r, r_volume r, r_cutoff r, r_resonance r, r_porta_time r, r_porta_en r,
     r_sustain_en r) /\
  C18.note_view r' = C18.note_view r.
Proof. exact C18_pitch_bend_views. Qed.

(** a control change on another channel changes nothing *)
Theorem C18_other_channel_cc : forall r ch c v,
  ch <> r_channel r -> apply_msg r (MControlChange ch c v) = r.
Proof. exact C18_other_channel_cc. Qed.

(** a pitch bend on another channel changes nothing *)
Theorem C18_other_channel_pitch_bend : forall r ch msb lsb,
  ch <> r_channel r -> apply_msg r (MPitchBend ch msb lsb) = r.
Proof. exact C18_other_channel_pitch_bend. Qed.

(** controller 123 (the exception in C18_notes_untouched) clears the held notes, drops the gate, latches the falling edge if the gate was high, and touches no controller output *)
Theorem C18_all_notes_off : forall r v,
  handle_cc r 123 v =
  mkRx (r_parser r) (r_channel r) (r_note r) (r_velocity r) (r_pitch_bend r) (r_mod_wheel r)
       (r_volume r) (r_cutoff r) (r_resonance r) (r_porta_time r) (r_porta_en r)
       (r_sustain_en r)
       false false (if r_gate r then true else r_falling r)
       (r_retrig r) (r_prio r) [].
Proof. exact C18_all_notes_off. Qed.

(** every controller not in the table is ignored entirely *)
Theorem C18_unknown_controller_ignored : forall r c v,
  c <> 1 -> c <> 7 -> c <> 71 -> c <> 74 -> c <> 5 -> c <> 65 -> c <> 64 -> c <> 121 ->
  c <> 123 ->
  handle_cc r c v = r.
Proof. exact C18_unknown_controller_ignored. Qed.

(** every one of the 16384 bend values: the rounded quotient (x - 8192) / 8191 above centre, / 8192 below *)
Theorem C18_pitch_bend_value : forall x, 0 <= x <= 16383 ->
  let v := x - 8192 in
  fin (value14_to_f32 (x / 128) (x mod 128)) /\
  R32 (value14_to_f32 (x / 128) (x mod 128))
  = rnd (IZR v / IZR (if 0 <? v then 8191 else 8192)).
Proof. exact pitch_bend_value. Qed.

Print Assumptions C18_pitch_bend_any_state.
Print Assumptions C18_pitch_bend_views.
Print Assumptions C18_other_channel_cc.
Print Assumptions C18_other_channel_pitch_bend.
Print Assumptions C18_all_notes_off.
Print Assumptions C18_unknown_controller_ignored.
Print Assumptions C18_pitch_bend_value.
