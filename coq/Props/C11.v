(** C11 — LFO phase advances at the requested frequency; reset and set_phase position it.
    Only the property theorems; proofs are in Proofs/LfoProofs.v. *)
From Coq Require Import ZArith Bool List Reals.
Import ListNotations.
From Flocq Require Import Core IEEE754.BinarySingleNaN.
From SU Require Import F32 F32Lemmas.
From SU.Model Require Import PhaseAcc Lfo.
From SU.Proofs Require Import LfoProofs.
From SU.Proofs Require Import SharedProofs.
From SU.Proofs Require Import LfoKillers.
From SU.Proofs Require Import LivenessProofs.
From SU.Spec Require Import RunSpec.
From SU.Spec Require Import AdsrSpec.
Open Scope R_scope.

Theorem C11_reset_zero : forall l, pa_acc (lfo_step l LReset) = 0%Z.
Proof. exact reset_zero. Qed.

(** fractional part of a non-negative real *)
Definition frac (x : R) : R := x - IZR (Zfloor x).

(** set_phase with a finite argument: the counter is the truncation of the rounded product
    of (2^24 - 1) with the fractional part of |p| -- a function of that fractional part only
    (so a negative p gives the same phase as -p, and p, p+1, p+2 ... give the same phase) --
    it is a legal counter value and within 2^-22 of a cycle of frac |p| *)
Theorem C11_set_phase : forall l p, fin p ->
  let a := pa_acc (lfo_step l (LSetPhase p)) in
  let fr := frac (Rabs (R32 p)) in
  a = Ztrunc (rnd (16777215 * fr)) /\ (0 <= a < 16777216)%Z /\
  Rabs (IZR a / 16777216 - fr) <= / 4194304.
Proof. exact set_phase_spec. Qed.

(** a NaN or infinite phase resets to 0 *)
Theorem C11_set_phase_nonfinite : forall l p, is_finite p = false ->
  pa_acc (lfo_step l (LSetPhase p)) = 0%Z.
Proof. exact set_phase_nonfinite. Qed.

(** every tick adds the increment modulo 2^24 (and the u32 addition does not overflow) *)
Theorem C11_tick : forall l, (0 <= pa_acc l < 16777216)%Z -> (0 <= pa_inc l <= 16777216)%Z ->
  pa_acc (lfo_step l LTick) = ((pa_acc l + pa_inc l) mod 16777216)%Z /\
  pa_inc (lfo_step l LTick) = pa_inc l /\ lfo_step_ok l LTick = true.
Proof. exact tick_exact. Qed.

(** the increment for a frequency f in [0, fs]: at most f32 rounding (2^-23 relative) above
    the ideal 2^24 f / fs, and at most that plus one counter step below it *)
Theorem C11_increment : forall l f, fin f -> fin (pa_fs l) ->
  100 <= R32 (pa_fs l) <= 192000 -> 0 <= R32 f <= R32 (pa_fs l) ->
  let inc := pa_inc (lfo_step l (LSetFreq f)) in
  let X := 16777216 * R32 f / R32 (pa_fs l) in
  (0 <= inc <= 16777216)%Z /\
  X * (1 - / 8388608) - 1 < IZR inc <= X * (1 + / 8388608).
Proof. exact increment_bounds. Qed.

(** hence the realised frequency inc * fs / 2^24 is within fs / 2^24 Hz (plus rounding) *)
Theorem C11_realised_frequency : forall l f, fin f -> fin (pa_fs l) ->
  100 <= R32 (pa_fs l) <= 192000 -> 0 <= R32 f <= R32 (pa_fs l) ->
  let inc := pa_inc (lfo_step l (LSetFreq f)) in
  Rabs (IZR inc * R32 (pa_fs l) / 16777216 - R32 f)
    <= R32 (pa_fs l) / 16777216 + R32 f / 8388608.
Proof. exact realised_frequency. Qed.

(** no drift: after n ticks at a fixed increment the phase is exactly acc0 + n*inc modulo
    2^24 -- the floating-point error is in the increment once and never accumulates *)
Theorem C11_no_drift : forall l n, (0 <= pa_acc l < 16777216)%Z -> (0 <= pa_inc l <= 16777216)%Z ->
  pa_acc (fold_left lfo_step (repeat LTick n) l)
  = ((pa_acc l + Z.of_nat n * pa_inc l) mod 16777216)%Z.
Proof. exact no_drift. Qed.

(** a frequency change never moves the phase *)
Theorem C11_set_frequency_no_jump : forall l f, pa_acc (lfo_step l (LSetFreq f)) = pa_acc l.
Proof. exact set_frequency_no_jump. Qed.

(** the phase accumulator for any width up to 31 bits: n ticks add n increments modulo 2^TOT (no drift) *)
Open Scope Z_scope.
Theorem C11_pa_ticks_generic : forall TOT n p, 0 <= TOT <= 31 -> 0 <= pa_acc p < 2 ^ TOT ->
  0 <= pa_inc p <= 2 ^ 32 - 2 ^ TOT ->
  pa_acc (Nat.iter n (pa_tick TOT) p) = (pa_acc p + Z.of_nat n * pa_inc p) mod 2 ^ TOT.
Proof. exact pa_ticks_acc_gen. Qed.
Close Scope Z_scope.

(** the rollover flag is set exactly when the addition carries out of the counter *)
Open Scope Z_scope.
Theorem C11_pa_tick_rolled : forall TOT p, 0 <= TOT <= 32 -> 0 <= pa_acc p < 2 ^ TOT ->
  pa_last p = pa_acc p -> 0 <= pa_inc p -> pa_tick_ok p = true ->
  pa_rolled (pa_tick TOT p) = pa_rolled p || (2 ^ TOT <=? pa_acc p + pa_inc p).
Proof. exact pa_tick_rolled_gen. Qed.
Close Scope Z_scope.

(** a frequency change never moves the phase *)
Open Scope Z_scope.
Theorem C11_pa_set_frequency_keeps : forall TOT p f,
  pa_acc (pa_set_frequency TOT p f) = pa_acc p /\
  pa_last (pa_set_frequency TOT p f) = pa_last p /\
  pa_rolled (pa_set_frequency TOT p f) = pa_rolled p /\
  0 <= pa_inc (pa_set_frequency TOT p f) <= U32_MAX.
Proof. exact pa_set_frequency_keeps. Qed.
Close Scope Z_scope.

(** reset *)
Open Scope Z_scope.
Theorem C11_pa_reset_spec : forall p,
  pa_acc (pa_reset p) = 0 /\ pa_last (pa_reset p) = 0 /\ pa_rolled (pa_reset p) = false /\
  pa_inc (pa_reset p) = pa_inc p /\ pa_fs (pa_reset p) = pa_fs p.
Proof. exact pa_reset_spec. Qed.
Close Scope Z_scope.

(** ramp, table index and interpolation fraction are three exact views of one counter (widths up to 24 bits) *)
Theorem C11_pa_ramp_index_fraction : forall TOT IDX p, (0 <= IDX <= TOT)%Z -> (TOT <= 24)%Z ->
  (0 <= pa_acc p < 2 ^ TOT)%Z ->
  R32 (pa_ramp TOT p) * IZR (2 ^ IDX) = IZR (pa_index TOT IDX p) + R32 (pa_fraction TOT IDX p).
Proof. exact pa_ramp_index_fraction. Qed.

(** the ramp is exactly counter / 2^TOT, in [0,1) *)
Theorem C11_pa_ramp_exact : forall TOT p, (0 <= TOT <= 24)%Z -> (0 <= pa_acc p < 2 ^ TOT)%Z ->
  fin (pa_ramp TOT p) /\
  R32 (pa_ramp TOT p) = IZR (pa_acc p) / IZR (2 ^ TOT) /\
  0 <= R32 (pa_ramp TOT p) < 1.
Proof. exact pa_ramp_exact_gen. Qed.

(** the fraction is exactly the low bits / 2^(TOT-IDX), in [0,1) *)
Theorem C11_pa_fraction_exact : forall TOT IDX p, (0 <= IDX <= TOT)%Z -> (TOT <= 24)%Z ->
  (0 <= pa_acc p < 2 ^ TOT)%Z ->
  fin (pa_fraction TOT IDX p) /\
  R32 (pa_fraction TOT IDX p)
    = IZR (Z.land (pa_acc p) (2 ^ (TOT - IDX) - 1)) / IZR (2 ^ (TOT - IDX)) /\
  0 <= R32 (pa_fraction TOT IDX p) < 1.
Proof. exact pa_fraction_exact_gen. Qed.

(** the index is below 2^IDX *)
Open Scope Z_scope.
Theorem C11_pa_index_range : forall TOT IDX p, 0 <= IDX <= TOT -> 0 <= pa_acc p < 2 ^ TOT ->
  0 <= pa_index TOT IDX p < 2 ^ IDX.
Proof. exact pa_index_range. Qed.
Close Scope Z_scope.

(** reset positions the phase only: frequency and sample rate are kept *)
Open Scope Z_scope.
Theorem C11_reset_keeps : forall l,
  pa_acc (lfo_step l LReset) = 0 /\
  pa_inc (lfo_step l LReset) = pa_inc l /\
  pa_fs (lfo_step l LReset) = pa_fs l.
Proof. exact lfo_reset_keeps. Qed.
Close Scope Z_scope.

(** set_phase positions the phase only *)
Open Scope Z_scope.
Theorem C11_set_phase_keeps : forall l p,
  pa_inc (lfo_step l (LSetPhase p)) = pa_inc l /\
  pa_fs (lfo_step l (LSetPhase p)) = pa_fs l.
Proof. exact lfo_set_phase_keeps. Qed.
Close Scope Z_scope.

(** the requested frequency stays in force until the next set_frequency *)
Open Scope Z_scope.
Theorem C11_frequency_persists : forall ops l, Forall not_set_freq ops ->
  pa_inc (fold_left lfo_step ops l) = pa_inc l /\
  pa_fs (fold_left lfo_step ops l) = pa_fs l.
Proof. exact lfo_frequency_persists. Qed.
Close Scope Z_scope.

(** a new LFO: phase 0, frequency 0 *)
Open Scope Z_scope.
Theorem C11_new_spec : forall fs,
  pa_acc (lfo_new fs) = 0 /\ pa_last (lfo_new fs) = 0 /\ pa_inc (lfo_new fs) = 0 /\
  pa_rolled (lfo_new fs) = false /\ pa_fs (lfo_new fs) = fs.
Proof. exact lfo_new_spec. Qed.
Close Scope Z_scope.

(** histories are applied oldest first *)
Open Scope Z_scope.
Theorem C11_run_snoc : forall fs ops o,
  lfo_run fs (ops ++ [o]) = lfo_step (lfo_run fs ops) o.
Proof. exact lfo_run_snoc. Qed.
Close Scope Z_scope.

(** the tick guard is exactly the u32 addition *)
Open Scope Z_scope.
Theorem C11_tick_ok_iff : forall l,
  lfo_step_ok l LTick = true <-> pa_acc l + pa_inc l <= 4294967295.
Proof. exact lfo_tick_ok_iff. Qed.
Close Scope Z_scope.

(** nothing else has a guard *)
Open Scope Z_scope.
Theorem C11_other_ops_ok : forall l o, o <> LTick -> lfo_step_ok l o = true.
Proof. exact lfo_other_ops_ok. Qed.
Close Scope Z_scope.

(** set_phase goes through reset (rollover bookkeeping cleared) *)
Open Scope Z_scope.
Theorem C11_pa_set_phase_resets : forall TOT p ph,
  pa_last (pa_set_phase TOT p ph) = 0 /\ pa_rolled (pa_set_phase TOT p ph) = false.
Proof. exact pa_set_phase_resets. Qed.
Close Scope Z_scope.

(** the hypotheses of the tick / drift / continuity theorems hold in every reachable state: for a legal rate and legal arguments, counter below 2^24, increment at most 2^24, sample rate unchanged *)
Theorem C11_reachable_invariant : forall fs ops, fs_ok fs -> Forall (lfo_op_ok fs) ops ->
  let l := lfo_run fs ops in
  (0 <= pa_acc l < 16777216)%Z /\ (0 <= pa_inc l <= 16777216)%Z /\ pa_fs l = fs.
Proof. exact lfo_reachable_invariant. Qed.

(** the counter range needs no hypothesis at all *)
Theorem C11_acc_range_any : forall fs ops, (0 <= pa_acc (lfo_run fs ops) < 16777216)%Z.
Proof. exact lfo_acc_range_any. Qed.

(** the tick theorem over arbitrary histories *)
Theorem C11_tick_trace : forall fs ops, fs_ok fs -> Forall (lfo_op_ok fs) ops ->
  let l := lfo_run fs ops in
  pa_acc (lfo_step l LTick) = ((pa_acc l + pa_inc l) mod 16777216)%Z /\
  pa_inc (lfo_step l LTick) = pa_inc l /\ lfo_step_ok l LTick = true.
Proof. exact C11_tick_trace. Qed.

(** no drift over arbitrary histories *)
Theorem C11_no_drift_trace : forall fs ops n, fs_ok fs -> Forall (lfo_op_ok fs) ops ->
  let l := lfo_run fs ops in
  pa_acc (lfo_run fs (ops ++ repeat LTick n))
  = ((pa_acc l + Z.of_nat n * pa_inc l) mod 16777216)%Z.
Proof. exact C11_no_drift_trace. Qed.

(** the increment in force is the one of the LAST set_frequency of the history, within the stated bounds *)
Theorem C11_increment_trace : forall fs pre f post, fs_ok fs ->
  fin f -> 0 <= R32 f <= R32 fs -> Forall LfoKillers.not_set_freq post ->
  let inc := pa_inc (lfo_run fs (pre ++ LSetFreq f :: post)) in
  let X := 16777216 * R32 f / R32 fs in
  (0 <= inc <= 16777216)%Z /\
  X * (1 - / 8388608) - 1 < IZR inc <= X * (1 + / 8388608).
Proof. exact lfo_increment_trace. Qed.

(** and so is the realised frequency *)
Theorem C11_realised_frequency_trace : forall fs pre f post, fs_ok fs ->
  fin f -> 0 <= R32 f <= R32 fs -> Forall LfoKillers.not_set_freq post ->
  let inc := pa_inc (lfo_run fs (pre ++ LSetFreq f :: post)) in
  Rabs (IZR inc * R32 fs / 16777216 - R32 f) <= R32 fs / 16777216 + R32 f / 8388608.
Proof. exact lfo_realised_frequency_trace. Qed.

Print Assumptions C11_reset_zero.
Print Assumptions C11_set_phase.
Print Assumptions C11_set_phase_nonfinite.
Print Assumptions C11_tick.
Print Assumptions C11_increment.
Print Assumptions C11_realised_frequency.
Print Assumptions C11_no_drift.
Print Assumptions C11_set_frequency_no_jump.
Print Assumptions C11_pa_ticks_generic.
Print Assumptions C11_pa_tick_rolled.
Print Assumptions C11_pa_set_frequency_keeps.
Print Assumptions C11_pa_reset_spec.
Print Assumptions C11_pa_ramp_index_fraction.
Print Assumptions C11_pa_ramp_exact.
Print Assumptions C11_pa_fraction_exact.
Print Assumptions C11_pa_index_range.
Print Assumptions C11_reset_keeps.
Print Assumptions C11_set_phase_keeps.
Print Assumptions C11_frequency_persists.
Print Assumptions C11_new_spec.
Print Assumptions C11_run_snoc.
Print Assumptions C11_tick_ok_iff.
Print Assumptions C11_other_ops_ok.
Print Assumptions C11_pa_set_phase_resets.
Print Assumptions C11_reachable_invariant.
Print Assumptions C11_acc_range_any.
Print Assumptions C11_tick_trace.
Print Assumptions C11_no_drift_trace.
Print Assumptions C11_increment_trace.
Print Assumptions C11_realised_frequency_trace.
