(** C12 — LFO sine and triangle are continuous, including across the cycle wrap.
    Only the property theorems; proofs are in Proofs/SineProofs.v. *)
From Coq Require Import ZArith Bool List Reals.
Import ListNotations.
From SU Require Import F32 F32Lemmas.
From SU.Model Require Import PhaseAcc Lfo.
From SU.Proofs Require Import LfoProofs SineProofs.
Open Scope R_scope.

(** between consecutive ticks the sine changes by at most 2*pi*1.002 times the phase step
    plus two f32 ulps (2 * 2^-24), for every phase and every increment: also for the
    smallest one and across the wrap from the end of a cycle into the next *)
Theorem C12_sine_continuous : forall l,
  (0 <= pa_acc l < 16777216)%Z -> (0 <= pa_inc l <= 16777216)%Z ->
  let l' := lfo_step l LTick in
  Rabs (R32 (lfo_get l' Sine) - R32 (lfo_get l Sine))
    <= 2 * PI * 1.002 * (IZR (pa_inc l) / 16777216) + 2 * / 16777216.
Proof. exact sine_continuous. Qed.

(** the triangle changes by at most 4 times the phase step, exactly *)
Theorem C12_triangle_continuous : forall l,
  (0 <= pa_acc l < 16777216)%Z -> (0 <= pa_inc l <= 16777216)%Z ->
  let l' := lfo_step l LTick in
  Rabs (R32 (lfo_get l' Triangle) - R32 (lfo_get l Triangle))
    <= 4 * (IZR (pa_inc l) / 16777216).
Proof. exact triangle_continuous. Qed.

(** in particular no glitch at the wrap point: the last counter value of a cycle and the
    first of the next are as close as any other adjacent pair *)
Theorem C12_wrap : forall l, pa_acc l = 16777215%Z -> pa_inc l = 1%Z ->
  let l' := lfo_step l LTick in
  pa_acc l' = 0%Z /\
  Rabs (R32 (lfo_get l' Sine) - R32 (lfo_get l Sine)) <= / 1000000.
Proof. exact sine_wrap. Qed.

Print Assumptions C12_sine_continuous.
Print Assumptions C12_triangle_continuous.
Print Assumptions C12_wrap.
