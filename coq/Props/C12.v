(** C12 — LFO sine and triangle are continuous, including across the cycle wrap.
    Only the property theorems; proofs are in Proofs/SineProofs.v. *)
From Coq Require Import ZArith Bool List Reals.
Import ListNotations.
From SU Require Import F32 F32Lemmas.
From SU.Model Require Import PhaseAcc Lfo.
From SU.Proofs Require Import LfoProofs SineProofs LfoFreqReadings.
From SU.Model Require Import Utils.
From Flocq Require Import Core.
From SU.Proofs Require Import SharedProofs.
From SU.Proofs Require Import LivenessProofs.
From SU.Spec Require Import RunSpec.
From SU.Spec Require Import AdsrSpec.
Open Scope R_scope.

(** between consecutive ticks the sine changes by at most 2*pi*1.002 times the phase step
    plus two f32 ulps (2 * 2^-24), for every phase and every increment: also for the
    smallest one and across the wrap from the end of a cycle into the next *)
Theorem C12_sine_continuous : forall l,
  (0 <= pa_acc l < 16777216)%Z -> (0 <= pa_inc l <= 16777216)%Z ->
  let l' := lfo_step l LTick in
  Rabs (R32 (lfo_get l' Sine) - R32 (lfo_get l Sine))
    <= 2 * PI * 1.002 * (IZR (pa_inc l) / 16777216) + 2 * / 16777216.
Proof. exact sine_continuous. Qed.

(** the triangle changes by at most 4 times the phase step, exactly *)
Theorem C12_triangle_continuous : forall l,
  (0 <= pa_acc l < 16777216)%Z -> (0 <= pa_inc l <= 16777216)%Z ->
  let l' := lfo_step l LTick in
  Rabs (R32 (lfo_get l' Triangle) - R32 (lfo_get l Triangle))
    <= 4 * (IZR (pa_inc l) / 16777216).
Proof. exact triangle_continuous. Qed.

(** in particular no glitch at the wrap point: the last counter value of a cycle and the
    first of the next are as close as any other adjacent pair *)
Theorem C12_wrap : forall l, pa_acc l = 16777215%Z -> pa_inc l = 1%Z ->
  let l' := lfo_step l LTick in
  pa_acc l' = 0%Z /\
  Rabs (R32 (lfo_get l' Sine) - R32 (lfo_get l Sine)) <= / 1000000.
Proof. exact sine_wrap. Qed.

(** the shared interpolation helper on table values in [-1,1] and a fraction in [0,1]: at most 4*2^-24 from the real interpolant *)
Theorem C12_linear_interp_error : forall y0 y1 fr : f32, fin y0 -> fin y1 -> fin fr ->
  Rabs (R32 y0) <= 1 -> Rabs (R32 y1) <= 1 -> 0 <= R32 fr <= 1 ->
  fin (linear_interp y0 y1 fr) /\
  Rabs (R32 (linear_interp y0 y1 fr) - (R32 y0 + (R32 y1 - R32 y0) * R32 fr))
    <= 4 * bpow radix2 (-24).
Proof. exact linear_interp_error. Qed.

(** sine continuity over arbitrary histories *)
Theorem C12_sine_trace : forall fs ops, fs_ok fs -> Forall (lfo_op_ok fs) ops ->
  let l := lfo_run fs ops in
  let l' := lfo_step l LTick in
  Rabs (R32 (lfo_get l' Sine) - R32 (lfo_get l Sine))
    <= 2 * PI * 1.002 * (IZR (pa_inc l) / 16777216) + 2 * / 16777216.
Proof. exact C12_sine_trace. Qed.

(** triangle continuity over arbitrary histories *)
Theorem C12_triangle_trace : forall fs ops, fs_ok fs -> Forall (lfo_op_ok fs) ops ->
  let l := lfo_run fs ops in
  let l' := lfo_step l LTick in
  Rabs (R32 (lfo_get l' Triangle) - R32 (lfo_get l Triangle))
    <= 4 * (IZR (pa_inc l) / 16777216).
Proof. exact C12_triangle_trace. Qed.

(** in terms of the last requested frequency: at most 2 pi 1.002 f / fs (1 + 2^-23) + 2^-23 per tick *)
Theorem C12_sine_trace_freq : forall fs pre f post, fs_ok fs ->
  Forall (lfo_op_ok fs) (pre ++ LSetFreq f :: post) -> Forall LfoKillers.not_set_freq post ->
  let l := lfo_run fs (pre ++ LSetFreq f :: post) in
  let l' := lfo_step l LTick in
  Rabs (R32 (lfo_get l' Sine) - R32 (lfo_get l Sine))
    <= 2 * PI * 1.002 * (R32 f / R32 fs * (1 + / 8388608)) + 2 * / 16777216.
Proof. exact C12_sine_trace_freq. Qed.

(** the five readings are a function of the phase counter alone: a set_frequency between two ticks moves no waveform *)
Theorem C12_set_frequency_keeps_readings : forall l f w,
  lfo_get (lfo_step l (LSetFreq f)) w = lfo_get l w.
Proof. exact set_frequency_keeps_readings. Qed.

(** between consecutive ticks with a set_frequency in between: the bound holds with the step of the NEW increment *)
Theorem C12_sine_continuous_across_set_frequency : forall l f,
  (0 <= pa_acc l < 16777216)%Z ->
  let l1 := lfo_step l (LSetFreq f) in
  (0 <= pa_inc l1 <= 16777216)%Z ->
  let l2 := lfo_step l1 LTick in
  Rabs (R32 (lfo_get l2 Sine) - R32 (lfo_get l Sine))
    <= 2 * PI * 1.002 * (IZR (pa_inc l1) / 16777216) + 2 * / 16777216.
Proof. exact sine_continuous_across_set_frequency. Qed.

(** the same for the triangle *)
Theorem C12_triangle_continuous_across_set_frequency : forall l f,
  (0 <= pa_acc l < 16777216)%Z ->
  let l1 := lfo_step l (LSetFreq f) in
  (0 <= pa_inc l1 <= 16777216)%Z ->
  let l2 := lfo_step l1 LTick in
  Rabs (R32 (lfo_get l2 Triangle) - R32 (lfo_get l Triangle))
    <= 4 * (IZR (pa_inc l1) / 16777216).
Proof. exact triangle_continuous_across_set_frequency. Qed.

Print Assumptions C12_sine_continuous.
Print Assumptions C12_triangle_continuous.
Print Assumptions C12_wrap.
Print Assumptions C12_linear_interp_error.
Print Assumptions C12_sine_trace.
Print Assumptions C12_triangle_trace.
Print Assumptions C12_sine_trace_freq.
Print Assumptions C12_set_frequency_keeps_readings.
Print Assumptions C12_sine_continuous_across_set_frequency.
Print Assumptions C12_triangle_continuous_across_set_frequency.
