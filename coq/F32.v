(** * F32: IEEE-754 binary32 as used by rustc on x86-64, on top of Flocq

    Bit-exact executable model: every Rust [f32] operation the crate uses is a
    thin wrapper around Flocq's [BinarySingleNaN] at [prec = 24], [emax = 128],
    rounding to nearest even.  NaN payloads/signs are not modelled (single NaN).
    This file contains definitions only (it is extracted to OCaml); lemmas are in
    F32Lemmas.v. *)

From Coq Require Import ZArith Bool List.
From Flocq Require Import Core.Zaux Core.Raux Core.Defs Core.FLX IEEE754.BinarySingleNaN.

Open Scope Z_scope.

Definition prec : Z := 24.
Definition emax : Z := 128.

#[global] Instance Hprec : Prec_gt_0 prec := eq_refl.
#[global] Instance Hmax : Prec_lt_emax prec emax := eq_refl.

Definition f32 : Type := binary_float prec emax.

Definition fadd : f32 -> f32 -> f32 := Bplus mode_NE.
Definition fsub : f32 -> f32 -> f32 := Bminus mode_NE.
Definition fmul : f32 -> f32 -> f32 := Bmult mode_NE.
Definition fdiv : f32 -> f32 -> f32 := Bdiv mode_NE.
Definition fneg : f32 -> f32 := Bopp.

(** Rust comparison operators: false whenever an operand is NaN. *)
Definition flt : f32 -> f32 -> bool := Bltb.
Definition fle : f32 -> f32 -> bool := Bleb.
Definition feq : f32 -> f32 -> bool := Beqb.

Definition is_nan32 (x : f32) : bool := is_nan x.

(** [f32::max] / [f32::min]: a NaN operand is ignored; the sign of a zero result
    is unspecified by Rust (outputs are compared with both zeros identified). *)
Definition fmax (a b : f32) : f32 :=
  if is_nan a then b else if is_nan b then a else if flt a b then b else a.
Definition fmin (a b : f32) : f32 :=
  if is_nan a then b else if is_nan b then a else if flt b a then b else a.

(** [f32::clamp(lo, hi)] (NaN stays NaN). *)
Definition fclamp (x lo hi : f32) : f32 :=
  if flt x lo then lo else if flt hi x then hi else x.

(** integer -> f32 ([as f32] from u8/u32/usize/i16/i32): correctly rounded. *)
Definition of_Z (z : Z) : f32 := binary_normalize prec emax _ _ mode_NE z 0 false.

(** f32 -> u32 ([as u32]): saturating, NaN -> 0. *)
Definition U32_MAX : Z := 4294967295.
Definition to_u32 (x : f32) : Z :=
  match x with
  | B754_nan => 0
  | B754_infinity s => if s then 0 else U32_MAX
  | B754_zero _ => 0
  | B754_finite _ _ _ _ => Z.max 0 (Z.min U32_MAX (Btrunc x))
  end.

(** [x % 1.0]: exact; the result carries the sign of [x]; NaN for non-finite [x]. *)
Definition frem1 (x : f32) : f32 :=
  match x with
  | B754_nan => B754_nan
  | B754_infinity _ => B754_nan
  | B754_zero s => B754_zero s
  | B754_finite s _ _ _ =>
      let r := fsub x (of_Z (Btrunc x)) in
      match r with
      | B754_zero _ => B754_zero s
      | _ => r
      end
  end.

(** Bit patterns.  [of_bits] decodes any 32-bit pattern (NaNs collapse);
    [to_bits] returns [None] for NaN. *)
Definition of_bits (b : Z) : f32 :=
  let s := Z.testbit b 31 in
  let e := Z.land (Z.shiftr b 23) 255 in
  let m := Z.land b 8388607 in
  if e =? 255 then (if m =? 0 then B754_infinity s else B754_nan)
  else if e =? 0 then
    (if m =? 0 then B754_zero s
     else binary_normalize prec emax _ _ mode_NE (if s then - m else m) (-149) s)
  else binary_normalize prec emax _ _ mode_NE
         (if s then - (m + 8388608) else m + 8388608) (e - 150) s.

Definition to_bits (x : f32) : option Z :=
  match x with
  | B754_nan => None
  | B754_zero s => Some (if s then 2147483648 else 0)
  | B754_infinity s => Some ((if s then 2147483648 else 0) + 2139095040)
  | B754_finite s m e _ =>
      let sb := if s then 2147483648 else 0 in
      if Z.pos m <? 8388608 then Some (sb + Z.pos m)
      else Some (sb + (e + 150) * 8388608 + (Z.pos m - 8388608))
  end.

(** Frequently used constants. *)
Definition f_0 : f32 := B754_zero false.
Definition f_n0 : f32 := B754_zero true.
Definition f_1 : f32 := of_Z 1.
Definition f_2 : f32 := of_Z 2.
Definition f_3 : f32 := of_Z 3.
Definition f_4 : f32 := of_Z 4.
Definition f_12 : f32 := of_Z 12.
Definition f_127 : f32 := of_Z 127.
Definition f_half : f32 := of_bits 1056964608. (* 0x3f000000 *)
Definition f_m1 : f32 := of_Z (-1).
Definition f_MIN : f32 := of_bits 4286578687. (* f32::MIN = 0xff7fffff *)

(** Sequential sum as [Iterator::sum::<f32>()] computes it: starts from [-0.0]. *)
Definition fsum (l : list f32) : f32 := fold_left fadd l f_n0.
