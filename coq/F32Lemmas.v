(** * F32Lemmas: characterising lemmas for the operations of F32.v

    Everything later proofs need to know about the float operations is stated
    here over the reals ([R32 x] is the real value of a finite [x]); the
    definitions of F32.v are not unfolded anywhere else. *)

From Coq Require Import ZArith Reals Lia Lra Bool List Floats.SpecFloat.
From Flocq Require Import Core IEEE754.BinarySingleNaN.
From SU Require Import F32.

Open Scope R_scope.

Notation fexp32 := (FLT_exp (-149) 24).

(** rounding to nearest even binary32 value (no overflow) *)
Definition rnd (x : R) : R := round radix2 fexp32 ZnearestE x.

Definition R32 (x : f32) : R := B2R x.
Definition fin (x : f32) : Prop := is_finite x = true.
Definition fmt (x : R) : Prop := generic_format radix2 fexp32 x.

(** overflow threshold 2^128 *)
Definition MAXF : R := bpow radix2 128.

#[global] Instance fexp32_valid : Valid_exp fexp32 := FLT_exp_valid (-149) 24.
#[global] Instance fexp32_mono : Monotone_exp fexp32 := FLT_exp_monotone (-149) 24.

Lemma fexp_is_fexp32 : SpecFloat.fexp prec emax = fexp32.
Proof. reflexivity. Qed.

(** ** rounding *)

Lemma rnd_le : forall x y, x <= y -> rnd x <= rnd y.
Proof. intros x y H. apply round_le; auto with typeclass_instances. Qed.

Lemma rnd_id : forall x, fmt x -> rnd x = x.
Proof. intros x H. apply round_generic; auto with typeclass_instances. Qed.

Lemma rnd_0 : rnd 0 = 0.
Proof. apply round_0; auto with typeclass_instances. Qed.

Lemma fmt_rnd : forall x, fmt (rnd x).
Proof. intros x. apply generic_format_round; auto with typeclass_instances. Qed.

Lemma fmt_R32 : forall x : f32, fmt (R32 x).
Proof. intros x. apply (generic_format_B2R prec emax). Qed.

Lemma fmt_0 : fmt 0.
Proof. apply generic_format_0. Qed.

Lemma fmt_opp : forall x, fmt x -> fmt (- x).
Proof. intros x H. now apply generic_format_opp. Qed.

(** [m * 2^e] is representable when [|m| <= 2^24] and [e >= -149] *)
Lemma fmt_mant : forall m e : Z, (Z.abs m <= 16777216)%Z -> (-149 <= e)%Z ->
  fmt (IZR m * bpow radix2 e).
Proof.
  intros m e Hm He.
  destruct (Z.eq_dec (Z.abs m) 16777216) as [Heq|Hne].
  - (* |m| = 2^24: m * 2^e = (m/2) * 2^(e+1) *)
    assert (Hm2 : m = (2 * (m / 2))%Z).
    { destruct (Z.abs_spec m) as [[_ Ha]|[_ Ha]]; rewrite Ha in Heq.
      - subst m; reflexivity.
      - assert (m = -16777216)%Z by lia. subst m; reflexivity. }
    replace (IZR m * bpow radix2 e) with (F2R (Float radix2 (m / 2) (e + 1))).
    2:{ unfold F2R; simpl. rewrite bpow_plus. rewrite Hm2 at 2. rewrite mult_IZR.
        change (bpow radix2 1) with 2. simpl (IZR 2). ring. }
    apply generic_format_FLT. exists (Float radix2 (m / 2) (e + 1)); simpl; try reflexivity; lia.
  - replace (IZR m * bpow radix2 e) with (F2R (Float radix2 m e)) by reflexivity.
    apply generic_format_FLT. exists (Float radix2 m e); simpl; try reflexivity; lia.
Qed.

Lemma fmt_int : forall z : Z, (Z.abs z <= 16777216)%Z -> fmt (IZR z).
Proof.
  intros z H. replace (IZR z) with (IZR z * bpow radix2 0) by (simpl; ring).
  apply fmt_mant; lia.
Qed.

(** rounding stays between representable bounds *)
Lemma rnd_bounds : forall a b x, fmt a -> fmt b -> a <= x <= b -> a <= rnd x <= b.
Proof.
  intros a b x Ha Hb [H1 H2]. split.
  - rewrite <- (rnd_id a Ha). now apply rnd_le.
  - rewrite <- (rnd_id b Hb). now apply rnd_le.
Qed.

Lemma rnd_ge_0 : forall x, 0 <= x -> 0 <= rnd x.
Proof. intros x H. rewrite <- rnd_0. now apply rnd_le. Qed.

Lemma rnd_le_0 : forall x, x <= 0 -> rnd x <= 0.
Proof. intros x H. rewrite <- rnd_0. now apply rnd_le. Qed.

Lemma rnd_opp : forall x, rnd (- x) = - rnd x.
Proof. intros x. unfold rnd. apply round_NE_opp. Qed.

Lemma rnd_abs_le : forall b x, fmt b -> Rabs x <= b -> Rabs (rnd x) <= b.
Proof.
  intros b x Hb H. apply Rabs_le. apply Rabs_le_inv in H.
  apply rnd_bounds; auto. now apply fmt_opp.
Qed.

Lemma MAXF_val : MAXF = 340282366920938463463374607431768211456.
Proof. unfold MAXF. simpl. lra. Qed.

(** a power of two below the overflow threshold is representable *)
Lemma fmt_bpow : forall e : Z, (-149 <= e)%Z -> fmt (bpow radix2 e).
Proof.
  intros e He. apply generic_format_FLT_bpow; auto with typeclass_instances.
Qed.

(** ** finite / infinite / NaN *)

Lemma fin_R32_of_Z_small : forall z : Z, (Z.abs z <= 16777216)%Z ->
  R32 (of_Z z) = IZR z /\ fin (of_Z z).
Proof.
  intros z Hz. unfold of_Z, R32, fin.
  generalize (binary_normalize_correct prec emax Hprec Hmax mode_NE z 0 false).
  cbv zeta. rewrite fexp_is_fexp32.
  replace (F2R (Float radix2 z 0)) with (IZR z) by (unfold F2R; simpl; ring).
  change (round radix2 fexp32 (round_mode mode_NE) (IZR z)) with (rnd (IZR z)).
  rewrite (rnd_id (IZR z)) by now apply fmt_int.
  rewrite Rlt_bool_true.
  - intros [H1 [H2 _]]. split; assumption.
  - change (bpow radix2 emax) with MAXF. rewrite MAXF_val.
    rewrite <- abs_IZR. apply Rle_lt_trans with (IZR 16777216).
    + now apply IZR_le.
    + lra.
Qed.

Lemma R32_of_Z_small : forall z : Z, (Z.abs z <= 16777216)%Z -> R32 (of_Z z) = IZR z.
Proof. intros z H. apply fin_R32_of_Z_small, H. Qed.

Lemma fin_of_Z_small : forall z : Z, (Z.abs z <= 16777216)%Z -> fin (of_Z z).
Proof. intros z H. apply fin_R32_of_Z_small, H. Qed.

(** general integers: correctly rounded *)
Lemma fin_R32_of_Z : forall z : Z, (Z.abs z <= 4294967296)%Z ->
  R32 (of_Z z) = rnd (IZR z) /\ fin (of_Z z).
Proof.
  intros z Hz. unfold of_Z, R32, fin.
  generalize (binary_normalize_correct prec emax Hprec Hmax mode_NE z 0 false).
  cbv zeta. rewrite fexp_is_fexp32.
  replace (F2R (Float radix2 z 0)) with (IZR z) by (unfold F2R; simpl; ring).
  change (round radix2 fexp32 (round_mode mode_NE) (IZR z)) with (rnd (IZR z)).
  rewrite Rlt_bool_true.
  - intros [H1 [H2 _]]. split; assumption.
  - change (bpow radix2 emax) with MAXF. rewrite MAXF_val.
    apply Rle_lt_trans with 4294967296; [|lra].
    apply rnd_abs_le.
    + replace 4294967296 with (bpow radix2 32) by (simpl; lra). apply fmt_bpow; lia.
    + rewrite <- abs_IZR. now apply IZR_le.
Qed.

(** ** the four arithmetic operations on finite operands *)

Lemma fadd_correct : forall a b : f32, fin a -> fin b ->
  Rabs (rnd (R32 a + R32 b)) < MAXF ->
  R32 (fadd a b) = rnd (R32 a + R32 b) /\ fin (fadd a b).
Proof.
  intros a b Ha Hb Hlt. unfold fadd, R32, fin in *.
  generalize (Bplus_correct prec emax Hprec Hmax mode_NE a b Ha Hb).
  rewrite fexp_is_fexp32. change (round radix2 fexp32 (round_mode mode_NE)) with rnd.
  change (bpow radix2 emax) with MAXF.
  rewrite Rlt_bool_true by exact Hlt. intros [H1 [H2 _]]. now split.
Qed.

Lemma fsub_correct : forall a b : f32, fin a -> fin b ->
  Rabs (rnd (R32 a - R32 b)) < MAXF ->
  R32 (fsub a b) = rnd (R32 a - R32 b) /\ fin (fsub a b).
Proof.
  intros a b Ha Hb Hlt. unfold fsub, R32, fin in *.
  generalize (Bminus_correct prec emax Hprec Hmax mode_NE a b Ha Hb).
  rewrite fexp_is_fexp32. change (round radix2 fexp32 (round_mode mode_NE)) with rnd.
  change (bpow radix2 emax) with MAXF.
  rewrite Rlt_bool_true by exact Hlt. intros [H1 [H2 _]]. now split.
Qed.

Lemma fmul_correct : forall a b : f32, fin a -> fin b ->
  Rabs (rnd (R32 a * R32 b)) < MAXF ->
  R32 (fmul a b) = rnd (R32 a * R32 b) /\ fin (fmul a b).
Proof.
  intros a b Ha Hb Hlt. unfold fmul, R32, fin in *.
  generalize (Bmult_correct prec emax Hprec Hmax mode_NE a b).
  rewrite fexp_is_fexp32. change (round radix2 fexp32 (round_mode mode_NE)) with rnd.
  change (bpow radix2 emax) with MAXF.
  rewrite Rlt_bool_true by exact Hlt. intros [H1 [H2 _]]. split; [exact H1|].
  rewrite H2, Ha, Hb. reflexivity.
Qed.

Lemma fdiv_correct : forall a b : f32, fin a -> fin b -> R32 b <> 0 ->
  Rabs (rnd (R32 a / R32 b)) < MAXF ->
  R32 (fdiv a b) = rnd (R32 a / R32 b) /\ fin (fdiv a b).
Proof.
  intros a b Ha Hb Hnz Hlt. unfold fdiv, R32, fin in *.
  generalize (Bdiv_correct prec emax Hprec Hmax mode_NE a b Hnz).
  rewrite fexp_is_fexp32. change (round radix2 fexp32 (round_mode mode_NE)) with rnd.
  change (bpow radix2 emax) with MAXF.
  rewrite Rlt_bool_true by exact Hlt. intros [H1 [H2 _]]. split; [exact H1|].
  rewrite H2. exact Ha.
Qed.

(** the usual way to discharge the overflow side condition: a representable bound *)
Lemma no_overflow : forall b x, fmt b -> b < MAXF -> Rabs x <= b -> Rabs (rnd x) < MAXF.
Proof.
  intros b x Hb Hlt H. apply Rle_lt_trans with b; [|exact Hlt]. now apply rnd_abs_le.
Qed.

Lemma R32_fneg : forall a : f32, R32 (fneg a) = - R32 a.
Proof. intros a. apply B2R_Bopp. Qed.

Lemma fin_fneg : forall a : f32, fin (fneg a) <-> fin a.
Proof. intros a. unfold fin, fneg. now rewrite is_finite_Bopp. Qed.

(** ** comparisons *)

Lemma flt_correct : forall a b : f32, fin a -> fin b -> flt a b = Rlt_bool (R32 a) (R32 b).
Proof. intros a b Ha Hb. now apply Bltb_correct. Qed.

Lemma fle_correct : forall a b : f32, fin a -> fin b -> fle a b = Rle_bool (R32 a) (R32 b).
Proof. intros a b Ha Hb. now apply Bleb_correct. Qed.

Lemma flt_true : forall a b : f32, fin a -> fin b -> (flt a b = true <-> R32 a < R32 b).
Proof.
  intros a b Ha Hb. rewrite flt_correct by assumption.
  case Rlt_bool_spec; intros H; split; intros H'; try easy; lra.
Qed.

Lemma flt_false : forall a b : f32, fin a -> fin b -> (flt a b = false <-> R32 b <= R32 a).
Proof.
  intros a b Ha Hb. rewrite flt_correct by assumption.
  case Rlt_bool_spec; intros H; split; intros H'; try easy; lra.
Qed.

Lemma fle_true : forall a b : f32, fin a -> fin b -> (fle a b = true <-> R32 a <= R32 b).
Proof.
  intros a b Ha Hb. rewrite fle_correct by assumption.
  case Rle_bool_spec; intros H; split; intros H'; try easy; lra.
Qed.

(** comparisons involving NaN are false *)
Lemma flt_nan_l : forall b : f32, flt B754_nan b = false.
Proof. intros b. reflexivity. Qed.
Lemma flt_nan_r : forall a : f32, flt a B754_nan = false.
Proof. intros a. unfold flt, Bltb, SFltb, SFcompare. destruct a; reflexivity. Qed.

(** ** classification *)
Lemma f32_cases : forall x : f32,
  x = B754_nan \/ (exists s, x = B754_infinity s) \/ fin x.
Proof.
  intros [s|s| |s m e H]; unfold fin; simpl; auto.
  right; left; now exists s.
Qed.

Lemma fin_not_nan : forall x : f32, fin x -> is_nan x = false.
Proof. intros [s|s| |s m e H]; unfold fin; simpl; congruence. Qed.

(** ** f32 -> u32 *)

Lemma Btrunc_R : forall x : f32, Btrunc x = Ztrunc (R32 x).
Proof.
  intros x. apply eq_IZR. rewrite (Btrunc_correct prec emax Hmax x).
  unfold round, F2R, scaled_mantissa, cexp, FIX_exp; simpl.
  unfold R32. rewrite Rmult_1_r. rewrite Rmult_1_r. reflexivity.
Qed.

Lemma to_u32_fin : forall x : f32, fin x ->
  to_u32 x = Z.max 0 (Z.min U32_MAX (Ztrunc (R32 x))).
Proof.
  intros [s|s| |s m e H] Hf; unfold fin in Hf; simpl in Hf; try discriminate.
  - unfold to_u32, R32. simpl. rewrite Ztrunc_IZR. reflexivity.
  - unfold to_u32. rewrite Btrunc_R. reflexivity.
Qed.

Lemma to_u32_range : forall x : f32, (0 <= to_u32 x <= U32_MAX)%Z.
Proof.
  intros [s|s| |s m e H]; unfold to_u32, U32_MAX; try destruct s; lia.
Qed.

Lemma Ztrunc_mono : forall x y, x <= y -> (Ztrunc x <= Ztrunc y)%Z.
Proof. intros x y H. apply Ztrunc_le, H. Qed.

Lemma to_u32_mono : forall x y : f32, fin x -> fin y -> R32 x <= R32 y ->
  (to_u32 x <= to_u32 y)%Z.
Proof.
  intros x y Hx Hy H. rewrite !to_u32_fin by assumption.
  apply Ztrunc_mono in H. lia.
Qed.

(** ** max / min / clamp *)

Lemma fmax_fin : forall a b : f32, fin a -> fin b ->
  fin (fmax a b) /\ R32 (fmax a b) = Rmax (R32 a) (R32 b).
Proof.
  intros a b Ha Hb. unfold fmax.
  rewrite (fin_not_nan a Ha), (fin_not_nan b Hb).
  destruct (flt a b) eqn:E.
  - apply flt_true in E; auto. split; auto. rewrite Rmax_right; lra.
  - apply flt_false in E; auto. split; auto. rewrite Rmax_left; lra.
Qed.

Lemma fmin_fin : forall a b : f32, fin a -> fin b ->
  fin (fmin a b) /\ R32 (fmin a b) = Rmin (R32 a) (R32 b).
Proof.
  intros a b Ha Hb. unfold fmin.
  rewrite (fin_not_nan a Ha), (fin_not_nan b Hb).
  destruct (flt b a) eqn:E.
  - apply flt_true in E; auto. split; auto. rewrite Rmin_right; lra.
  - apply flt_false in E; auto. split; auto. rewrite Rmin_left; lra.
Qed.

Lemma fmax_nan_l : forall b : f32, fmax B754_nan b = b.
Proof. reflexivity. Qed.

Lemma fmin_nan_l : forall b : f32, fmin B754_nan b = b.
Proof. reflexivity. Qed.

(** comparisons with an infinity *)
Lemma flt_inf_l : forall s (b : f32), fin b -> flt (B754_infinity s) b = s.
Proof.
  intros s [sb|sb| |sb mb eb Hb] Hf; unfold fin in Hf; simpl in Hf; try discriminate;
    destruct s; reflexivity.
Qed.

Lemma flt_inf_r : forall s (a : f32), fin a -> flt a (B754_infinity s) = negb s.
Proof.
  intros s [sa|sa| |sa ma ea Ha] Hf; unfold fin in Hf; simpl in Hf; try discriminate;
    destruct s; reflexivity.
Qed.

(** [x.max(lo).min(hi)] for finite [lo <= hi]: the result is finite, inside [lo, hi],
    equal to [x] when [x] is inside, to the nearer bound otherwise; NaN gives [lo] *)
Lemma clamp_maxmin : forall (x lo hi : f32), fin lo -> fin hi -> R32 lo <= R32 hi ->
  let r := fmin (fmax x lo) hi in
  fin r /\ R32 lo <= R32 r <= R32 hi /\
  (x = B754_nan -> r = lo) /\
  (fin x -> R32 lo <= R32 x <= R32 hi -> r = x) /\
  (fin x -> R32 x < R32 lo -> r = lo) /\
  (fin x -> R32 hi < R32 x -> r = hi) /\
  (x = B754_infinity true -> r = lo) /\
  (x = B754_infinity false -> r = hi).
Proof.
  intros x lo hi Hlo Hhi Hle r. subst r.
  destruct (f32_cases x) as [Hx|[[s Hx]|Hx]].
  - subst x. rewrite fmax_nan_l.
    assert (E : fmin lo hi = lo).
    { unfold fmin. rewrite (fin_not_nan _ Hlo), (fin_not_nan _ Hhi).
      destruct (flt hi lo) eqn:E; auto. apply flt_true in E; auto. lra. }
    rewrite E. repeat split; auto; try lra; intros H; try discriminate H;
      unfold fin in H; simpl in H; discriminate.
  - subst x. unfold fmax. cbn [is_nan]. rewrite (fin_not_nan _ Hlo).
    rewrite flt_inf_l by assumption.
    destruct s.
    + (* -inf *)
      assert (E : fmin lo hi = lo).
      { unfold fmin. rewrite (fin_not_nan _ Hlo), (fin_not_nan _ Hhi).
        destruct (flt hi lo) eqn:E; auto. apply flt_true in E; auto. lra. }
      rewrite E. repeat split; auto; try lra; intros H; try discriminate H;
        unfold fin in H; simpl in H; discriminate.
    + (* +inf *)
      assert (E : fmin (B754_infinity false) hi = hi).
      { unfold fmin. cbn [is_nan]. rewrite (fin_not_nan _ Hhi).
        rewrite flt_inf_r by assumption. reflexivity. }
      rewrite E. repeat split; auto; try lra; intros H; try discriminate H;
        unfold fin in H; simpl in H; discriminate.
  - destruct (fmax_fin x lo Hx Hlo) as [F1 V1].
    destruct (fmin_fin (fmax x lo) hi F1 Hhi) as [F2 V2].
    split; [exact F2|]. rewrite V2, V1.
    split.
    { unfold Rmin, Rmax. destruct (Rle_dec (R32 x) (R32 lo)); destruct (Rle_dec _ (R32 hi)); lra. }
    assert (Einj : forall y : f32, fin y -> R32 (fmin (fmax x lo) hi) = R32 y ->
                   (R32 y <> 0 \/ True) -> True) by auto.
    repeat split.
    + intros H; subst x; unfold fin in Hx; simpl in Hx; discriminate.
    + intros _ [Ha Hb]. unfold fmax, fmin.
      rewrite (fin_not_nan _ Hx), (fin_not_nan _ Hlo).
      destruct (flt x lo) eqn:E1.
      * apply flt_true in E1; auto. lra.
      * rewrite (fin_not_nan _ Hx), (fin_not_nan _ Hhi).
        destruct (flt hi x) eqn:E2; auto. apply flt_true in E2; auto. lra.
    + intros _ Ha. unfold fmax, fmin.
      rewrite (fin_not_nan _ Hx), (fin_not_nan _ Hlo).
      destruct (flt x lo) eqn:E1.
      * rewrite (fin_not_nan _ Hlo), (fin_not_nan _ Hhi).
        destruct (flt hi lo) eqn:E2; auto. apply flt_true in E2; auto. lra.
      * apply flt_false in E1; auto. lra.
    + intros _ Ha. unfold fmax, fmin.
      rewrite (fin_not_nan _ Hx), (fin_not_nan _ Hlo).
      destruct (flt x lo) eqn:E1.
      * apply flt_true in E1; auto. lra.
      * rewrite (fin_not_nan _ Hx), (fin_not_nan _ Hhi).
        destruct (flt hi x) eqn:E2; auto. apply flt_false in E2; auto. lra.
    + intros H; subst x; unfold fin in Hx; simpl in Hx; discriminate.
    + intros H; subst x; unfold fin in Hx; simpl in Hx; discriminate.
Qed.

(** ** evaluating closed constants *)

Lemma R32_of_SF : forall (x : f32) s m e,
  B2SF x = S754_finite s m e -> R32 x = IZR (cond_Zopp s (Zpos m)) * bpow radix2 e.
Proof.
  intros [sx|sx| |sx mx ex Hx] s m e H; simpl in H; try discriminate.
  inversion H; subst. reflexivity.
Qed.

Lemma fin_of_SF : forall (x : f32) s m e, B2SF x = S754_finite s m e -> fin x.
Proof.
  intros [sx|sx| |sx mx ex Hx] s m e H; simpl in H; try discriminate. reflexivity.
Qed.

Lemma bpow2_neg : forall k : Z, (0 < k)%Z -> bpow radix2 (- k) = / IZR (2 ^ k).
Proof.
  intros k Hk. rewrite bpow_opp. f_equal. rewrite <- IZR_Zpower by lia. reflexivity.
Qed.

Lemma bpow2_pos : forall k : Z, (0 <= k)%Z -> bpow radix2 k = IZR (2 ^ k).
Proof. intros k Hk. rewrite <- IZR_Zpower by lia. reflexivity. Qed.

(** [r32_const c]: rewrites [R32 c] (c a closed float term) into [IZR m * / IZR 2^k]
    or [IZR m * IZR 2^k] with literal numbers, suitable for [lra]. *)
Ltac r32_const c :=
  let sf := eval vm_compute in (B2SF c) in
  match sf with
  | S754_finite ?s ?m ?e =>
      rewrite (R32_of_SF c s m e ltac:(vm_compute; reflexivity));
      cbn [cond_Zopp Z.opp];
      let neg := eval vm_compute in (e <? 0)%Z in
      match neg with
      | true =>
          let k := eval vm_compute in (- e)%Z in
          let p := eval vm_compute in (2 ^ k)%Z in
          replace (bpow radix2 e) with (/ IZR p)
            by (symmetry; exact (bpow2_neg k ltac:(reflexivity)))
      | false =>
          let p := eval vm_compute in (2 ^ e)%Z in
          replace (bpow radix2 e) with (IZR p)
            by (symmetry; exact (bpow2_pos e ltac:(discriminate)))
      end
  | S754_zero _ => replace (R32 c) with 0 by (vm_compute; reflexivity)
  end.

(** [fin_const]: closes a goal [fin c] for a closed float term *)
Ltac fin_const := vm_compute; reflexivity.
