
val xorb : bool -> bool -> bool

val negb : bool -> bool

type nat =
| O
| S of nat

val fst : ('a1 * 'a2) -> 'a1

val length : 'a1 list -> nat

val app : 'a1 list -> 'a1 list -> 'a1 list

type comparison =
| Eq
| Lt
| Gt

val compOpp : comparison -> comparison

val add : nat -> nat -> nat

val sub : nat -> nat -> nat

type positive =
| XI of positive
| XO of positive
| XH

type n =
| N0
| Npos of positive

type z =
| Z0
| Zpos of positive
| Zneg of positive

val eqb : bool -> bool -> bool

module Nat :
 sig
  val eqb : nat -> nat -> bool
 end

module Pos :
 sig
  val succ : positive -> positive

  val add : positive -> positive -> positive

  val add_carry : positive -> positive -> positive

  val pred_double : positive -> positive

  val pred_N : positive -> n

  val mul : positive -> positive -> positive

  val iter : ('a1 -> 'a1) -> 'a1 -> positive -> 'a1

  val div2 : positive -> positive

  val div2_up : positive -> positive

  val size : positive -> positive

  val compare_cont : comparison -> positive -> positive -> comparison

  val compare : positive -> positive -> comparison

  val eqb : positive -> positive -> bool

  val coq_Nsucc_double : n -> n

  val coq_Ndouble : n -> n

  val coq_lor : positive -> positive -> positive

  val coq_land : positive -> positive -> n

  val ldiff : positive -> positive -> n

  val testbit : positive -> n -> bool

  val iter_op : ('a1 -> 'a1 -> 'a1) -> positive -> 'a1 -> 'a1

  val to_nat : positive -> nat

  val of_succ_nat : nat -> positive
 end

module N :
 sig
  val succ_pos : n -> positive

  val coq_lor : n -> n -> n

  val coq_land : n -> n -> n

  val ldiff : n -> n -> n

  val testbit : n -> n -> bool
 end

module Z :
 sig
  val double : z -> z

  val succ_double : z -> z

  val pred_double : z -> z

  val pos_sub : positive -> positive -> z

  val add : z -> z -> z

  val opp : z -> z

  val pred : z -> z

  val sub : z -> z -> z

  val mul : z -> z -> z

  val pow_pos : z -> positive -> z

  val pow : z -> z -> z

  val compare : z -> z -> comparison

  val leb : z -> z -> bool

  val ltb : z -> z -> bool

  val eqb : z -> z -> bool

  val max : z -> z -> z

  val min : z -> z -> z

  val to_nat : z -> nat

  val of_nat : nat -> z

  val of_N : n -> z

  val to_pos : z -> positive

  val pos_div_eucl : positive -> z -> z * z

  val div_eucl : z -> z -> z * z

  val div : z -> z -> z

  val modulo : z -> z -> z

  val even : z -> bool

  val odd : z -> bool

  val div2 : z -> z

  val log2 : z -> z

  val testbit : z -> z -> bool

  val shiftl : z -> z -> z

  val shiftr : z -> z -> z

  val coq_lor : z -> z -> z

  val coq_land : z -> z -> z

  val lnot : z -> z
 end

val zeq_bool : z -> z -> bool

val nth : nat -> 'a1 list -> 'a1 -> 'a1

val last : 'a1 list -> 'a1 -> 'a1

val map : ('a1 -> 'a2) -> 'a1 list -> 'a2 list

val flat_map : ('a1 -> 'a2 list) -> 'a1 list -> 'a2 list

val fold_left : ('a1 -> 'a2 -> 'a1) -> 'a2 list -> 'a1 -> 'a1

val filter : ('a1 -> bool) -> 'a1 list -> 'a1 list

val firstn : nat -> 'a1 list -> 'a1 list

val skipn : nat -> 'a1 list -> 'a1 list

val repeat : 'a1 -> nat -> 'a1 list

val shift_pos : positive -> positive -> positive

type spec_float =
| S754_zero of bool
| S754_infinity of bool
| S754_nan
| S754_finite of bool * positive * z

val emin : z -> z -> z

val fexp : z -> z -> z -> z

val digits2_pos : positive -> positive

val zdigits2 : z -> z

val iter_pos : ('a1 -> 'a1) -> positive -> 'a1 -> 'a1

type location =
| Loc_Exact
| Loc_Inexact of comparison

type shr_record = { shr_m : z; shr_r : bool; shr_s : bool }

val shr_1 : shr_record -> shr_record

val loc_of_shr_record : shr_record -> location

val shr_record_of_loc : z -> location -> shr_record

val shr : shr_record -> z -> z -> shr_record * z

val shr_fexp : z -> z -> z -> z -> location -> shr_record * z

val shl_align : positive -> z -> z -> positive * z

val sFcompare : spec_float -> spec_float -> comparison option

val sFltb : spec_float -> spec_float -> bool

val sFleb : spec_float -> spec_float -> bool

val cond_Zopp : bool -> z -> z

val new_location_even : z -> z -> location

val new_location_odd : z -> z -> location

val new_location : z -> z -> location

val sFdiv_core_binary : z -> z -> z -> z -> z -> z -> (z * z) * location

val cond_incr : bool -> z -> z

val round_sign_DN : bool -> location -> bool

val round_sign_UP : bool -> location -> bool

val round_N : bool -> location -> bool

type binary_float =
| B754_zero of bool
| B754_infinity of bool
| B754_nan
| B754_finite of bool * positive * z

val sF2B : z -> z -> spec_float -> binary_float

val b2SF : z -> z -> binary_float -> spec_float

val is_nan : z -> z -> binary_float -> bool

val bopp : z -> z -> binary_float -> binary_float

val bltb : z -> z -> binary_float -> binary_float -> bool

val bleb : z -> z -> binary_float -> binary_float -> bool

type mode =
| Mode_NE
| Mode_ZR
| Mode_DN
| Mode_UP
| Mode_NA

val choice_mode : mode -> bool -> z -> location -> z

val overflow_to_inf : mode -> bool -> bool

val binary_overflow : z -> z -> mode -> bool -> spec_float

val binary_fit_aux : z -> z -> mode -> bool -> positive -> z -> spec_float

val binary_round_aux :
  z -> z -> mode -> bool -> z -> z -> location -> spec_float

val bmult : z -> z -> mode -> binary_float -> binary_float -> binary_float

val shl_align_fexp : z -> z -> positive -> z -> positive * z

val binary_round : z -> z -> mode -> bool -> positive -> z -> spec_float

val binary_normalize : z -> z -> mode -> z -> z -> bool -> binary_float

val fplus_naive : bool -> positive -> z -> bool -> positive -> z -> z -> z

val bplus : z -> z -> mode -> binary_float -> binary_float -> binary_float

val bminus : z -> z -> mode -> binary_float -> binary_float -> binary_float

val bdiv : z -> z -> mode -> binary_float -> binary_float -> binary_float

val sFnearbyint_binary_aux : z -> mode -> bool -> positive -> z -> z

val btrunc : z -> z -> binary_float -> z

val prec : z

val emax : z

type f32 = binary_float

val fadd : f32 -> f32 -> f32

val fsub : f32 -> f32 -> f32

val fmul : f32 -> f32 -> f32

val fdiv : f32 -> f32 -> f32

val fneg : f32 -> f32

val flt : f32 -> f32 -> bool

val fle : f32 -> f32 -> bool

val fmax : f32 -> f32 -> f32

val fmin : f32 -> f32 -> f32

val fclamp : f32 -> f32 -> f32 -> f32

val of_Z : z -> f32

val u32_MAX : z

val to_u32 : f32 -> z

val frem1 : f32 -> f32

val of_bits : z -> f32

val to_bits : f32 -> z option

val f_0 : f32

val f_n0 : f32

val f_1 : f32

val f_2 : f32

val f_3 : f32

val f_4 : f32

val f_12 : f32

val f_127 : f32

val f_half : f32

val f_m1 : f32

val f_MIN : f32

val fsum : f32 list -> f32

val prec64 : z

val emax64 : z

type f64 = binary_float

val dadd : f64 -> f64 -> f64

val dsub : f64 -> f64 -> f64

val dmul : f64 -> f64 -> f64

val ddiv : f64 -> f64 -> f64

val d_of_Z : z -> f64

val f32_to_f64 : f32 -> f64

val f64_to_f32 : f64 -> f32

val d_of_bits : z -> f64

val linear_interp : f32 -> f32 -> f32 -> f32

val ilog_2 : z -> z

val fabs : f32 -> f32

val is_almost : f32 -> f32 -> f32 -> bool

type pa = { pa_fs : f32; pa_acc : z; pa_last : z; pa_inc : z; pa_rolled : bool }

val pa_acc : pa -> z

val two_tot : z -> z

val mask : z -> z

val frac_bits : z -> z -> z

val pa_new : f32 -> pa

val pa_tick_ok : pa -> bool

val pa_tick : z -> pa -> pa

val pa_set_frequency : z -> pa -> f32 -> pa

val pa_set_period : z -> pa -> f32 -> pa

val pa_reset : pa -> pa

val pa_set_phase : z -> pa -> f32 -> pa

val pa_ramp : z -> pa -> f32

val pa_index : z -> z -> pa -> z

val pa_fraction : z -> z -> pa -> f32

val pa_take_rolled : pa -> bool * pa

val sINE_TABLE_bits : z list

val aDSR_ATTACK_TABLE_bits : z list

val aDSR_DECAY_TABLE_bits : z list

val sINE_LUT_SIZE : z

val aDSR_CURVE_LUT_SIZE : z

val mIN_TIME_PERIOD_SEC_bits : z

val mAX_TIME_PERIOD_SEC_bits : z

val aDSR_TOT_NUM_ACCUM_BITS : z

val lFO_TOT_NUM_ACCUM_BITS : z

val sEMITONE_WIDTH_bits : z

val hYSTERESIS_bits : z

val oNE_OCTAVE_IN_MICROVOLTS : z

val hALF_STEP_IN_MICROVOLTS : z

val mAX_OCTAVE : z

val v_MAX_bits : z

val cC_MOD_WHEEL : z

val cC_VOLUME : z

val cC_VCF_CUTOFF : z

val cC_VCF_RESONANCE : z

val cC_SUSTAIN_SWITCH : z

val cC_PORTAMENTO_SWITCH : z

val cC_PORTAMENTO_TIME : z

val cC_ALL_CONTROLLERS_OFF : z

val cC_ALL_NOTES_OFF : z

val u7_HALF_SCALE : z

val hELD_DOWN_NOTE_BUFFER_LEN : z

val rIBBON_FALL_TIME_USEC : z

val rIBBON_RISE_TIME_USEC : z

val mIN_CAPTURE_TIME_USEC : z

val gLIDE_MAX_FC_DIVISOR_bits : z

val gLIDE_MIN_FC_bits : z

val gLIDE_EPSILON_bits : z

val gLIDE_CACHED_T_INIT_bits : z

val sine_table : f32 list

val attack_table : f32 list

val decay_table : f32 list

val tbl : f32 list -> z -> f32

val tbl_ok : f32 list -> z -> bool

type phase =
| AtRest
| Attack
| Decay
| Sustain
| Release

val phase_num : phase -> z

val mIN_TIME : f32

val mAX_TIME : f32

val tOT : z

val iDX : z

val time_from : f32 -> f32

val sustain_from : f32 -> f32

type adsr = { a_attack : f32; a_decay : f32; a_sustain : f32;
              a_release : f32; a_pa : pa; a_state : phase; a_von : f32;
              a_voff : f32; a_value : f32 }

val a_pa : adsr -> pa

val a_state : adsr -> phase

val a_value : adsr -> f32

val adsr_new : f32 -> adsr

val next_idx : z -> z

val lut_sample : f32 list -> pa -> f32

val calc_value : adsr -> f32

val timed : phase -> bool

val period_of : adsr -> f32

val next_phase : phase -> phase

val with_pa_state : adsr -> pa -> phase -> adsr

val with_value : adsr -> f32 -> adsr

val tick_advance : adsr -> adsr

val adsr_tick : adsr -> adsr

val adsr_tick_ok : adsr -> bool

val adsr_gate_on : adsr -> adsr

val adsr_gate_off : adsr -> adsr

type adsr_op =
| ATick
| AGateOn
| AGateOff
| ASetAttack of f32
| ASetDecay of f32
| ASetSustain of f32
| ASetRelease of f32

val adsr_set : adsr -> f32 -> f32 -> f32 -> f32 -> adsr

val adsr_step : adsr -> adsr_op -> adsr

val adsr_step_ok : adsr -> adsr_op -> bool

val lTOT : z

val lIDX : z

type lfo = pa

val lfo_new : f32 -> lfo

type shape =
| Sine
| Triangle
| UpSaw
| DownSaw
| Square

val lfo_upsaw : lfo -> f32

val lfo_get : lfo -> shape -> f32

val lfo_get_ok : lfo -> bool

type lfo_op =
| LTick
| LSetFreq of f32
| LSetPhase of f32
| LReset

val lfo_step : lfo -> lfo_op -> lfo

val lfo_step_ok : lfo -> lfo_op -> bool

type conv = { c_note : z; c_stair : f32; c_frac : f32 }

type quant = { q_cached : conv; q_allowed : z }

val q_allowed : quant -> z

val sEMITONE : f32

val hYST : f32

val v_MAX : f32

val oCT : z

val hALF : z

val conv_new : conv

val quant_new : quant

val note_new : z -> z

val bit_allowed : z -> z -> bool

val delta : z -> z -> z

val octave_cands : z -> z -> z list

val octaves_to_search : z -> z list

val scan : z list -> z -> z -> z -> z

val vin_microvolts : f32 -> z

val find_nearest_uv : z -> z -> z

val find_nearest_note : z -> f32 -> z

val clamp_vin : f32 -> f32

val in_window : conv -> f32 -> bool

val convert : quant -> f32 -> quant * conv

val allow_bits : z -> z list -> z

val forbid_bits : z -> z list -> z

val quant_allow : quant -> z list -> quant

val quant_forbid : quant -> z list -> quant

val quant_forbid_ok : quant -> z list -> bool

type quant_op =
| QAllow of z list
| QForbid of z list
| QConvert of f32

val quant_step : quant -> quant_op -> quant

val quant_step_ok : quant -> quant_op -> bool

type pstate =
| Idle
| NoteOnRecvd of z
| NoteOnNoteRecvd of z * z
| NoteOffRecvd of z
| NoteOffNoteRecvd of z * z
| KeyPressureRecvd of z
| KeyPressureNoteRecvd of z * z
| ControlChangeRecvd of z
| ControlChangeControlRecvd of z * z
| ProgramChangeRecvd of z
| ChannelPressureRecvd of z
| PitchBendRecvd of z
| PitchBendLsbRecvd of z * z
| QuarterFrameRecvd
| SongPositionRecvd
| SongPositionLsbRecvd of z
| SongSelectRecvd

type msg =
| MNoteOff of z * z * z
| MNoteOn of z * z * z
| MControlChange of z * z * z
| MPitchBend of z * z * z
| MOther

val is_status_byte : z -> bool

val is_system_message : z -> bool

val u7 : z -> z

val parse_byte : pstate -> z -> pstate * msg option

val parse_byte_ok : pstate -> z -> bool

val value14_to_f32 : z -> z -> f32

type priority =
| PLast
| PHigh
| PLow

type rx = { r_parser : pstate; r_channel : z; r_note : z; r_velocity : 
            f32; r_pitch_bend : f32; r_mod_wheel : f32; r_volume : f32;
            r_cutoff : f32; r_resonance : f32; r_porta_time : f32;
            r_porta_en : bool; r_sustain_en : bool; r_gate : bool;
            r_rising : bool; r_falling : bool; r_retrig : bool;
            r_prio : priority; r_held : z list }

val rx_new : z -> rx

val value7_to_f32 : z -> f32

val list_max : z list -> z

val list_min : z list -> z

val choose_next_note : priority -> z list -> z

val push_held : z list -> z -> z list

val set_notes : rx -> z -> f32 -> bool -> bool -> bool -> z list -> rx

val set_ctrl :
  rx -> f32 -> f32 -> f32 -> f32 -> f32 -> f32 -> bool -> bool -> rx

val handle_note_on : rx -> z -> z -> rx

val handle_note_off : rx -> z -> rx

val handle_cc : rx -> z -> z -> rx

val apply_msg : rx -> msg -> rx

val with_parser : rx -> pstate -> rx

val rx_parse : rx -> z -> rx

val rx_rising_gate : rx -> bool * rx

val rx_falling_gate : rx -> bool * rx

val rx_set_retrig : rx -> bool -> rx

val rx_set_prio : rx -> priority -> rx

type rx_op =
| RByte of z
| RPollRise
| RPollFall
| RSetPrio of priority
| RSetRetrig of bool

val rx_step : rx -> rx_op -> rx * bool option

val rx_step_ok : rx -> rx_op -> bool

val t0 : f64

val t1 : f64

val t2 : f64

val t3 : f64

val t4 : f64

val t5 : f64

val t1_PIO2 : f64

val k_tanf : f64 -> bool -> f32

val tanf : f32 -> f32

type coeffs = { k_a1 : f32; k_a2 : f32; k_b0 : f32; k_b1 : f32; k_b2 : f32 }

type df1 = { d_y1 : f32; d_y2 : f32; d_x1 : f32; d_x2 : f32; d_c : coeffs }

val d_c : df1 -> coeffs

type glide = { g_min_fc : f32; g_max_fc : f32; g_fs : f32; g_lpf : df1;
               g_cached_t : f32 }

val g_lpf : glide -> df1

val f_PI : f32

val tWO_PI : f32

val hz_ok : f32 -> bool

val from_params : f32 -> f32 -> coeffs option

val df1_new : coeffs -> df1

val df1_run : df1 -> f32 -> df1 * f32

val gL_DIV : f32

val gL_MIN_FC : f32

val gL_EPS : f32

val gL_T0 : f32

val glide_new : f32 -> glide option

val glide_f0 : glide -> f32 -> f32

val glide_set_time : glide -> f32 -> glide option

val glide_process : glide -> f32 -> glide * f32

type histbuf = { hb_data : f32 list; hb_write_at : nat; hb_filled : bool }

val hb_new : nat -> histbuf

val set_nth : f32 list -> nat -> f32 -> f32 list

val hb_write : nat -> histbuf -> f32 -> histbuf

val hb_oldest_ordered : histbuf -> f32 list

type ribbon = { rb_cap : nat; rb_boundary : f32; rb_err : f32; rb_val : 
                f32; rb_pressing : bool; rb_just_pressed : bool;
                rb_just_released : bool; rb_buf : histbuf; rb_ignore : 
                z; rb_discard : z; rb_received : z; rb_written : z }

val rb_pressing : ribbon -> bool

val usec_to_samples : z -> z -> z

val usec_to_samples_ok : z -> z -> bool

val ribbon_new : nat -> f32 -> f32 -> f32 -> f32 -> ribbon

val ribbon_new_ok : nat -> f32 -> bool

val error_estimate : ribbon -> f32 -> f32

val ribbon_average : ribbon -> histbuf -> f32

val ribbon_poll : ribbon -> f32 -> ribbon

val ribbon_poll_ok : ribbon -> f32 -> bool

val ribbon_value : ribbon -> f32

val ribbon_just_pressed : ribbon -> bool * ribbon

val ribbon_just_released : ribbon -> bool * ribbon

val sample_rate_to_capacity : z -> z

val sample_rate_to_capacity_ok : z -> bool

type ribbon_op =
| RbPoll of f32
| RbJustPressed
| RbJustReleased

val ribbon_step : ribbon -> ribbon_op -> ribbon * bool option

val ribbon_step_ok : ribbon -> ribbon_op -> bool
