#!/bin/sh
# MANIFEST.setup_cmd: builds the whole framework from files on disk, offline.
set -e
cd "$(dirname "$0")"
export CARGO_NET_OFFLINE=true CARGO_TARGET_DIR="$PWD/_build/target"
mkdir -p _build/logs _build/ocaml evidence replays
# 1. translator: constants and tables from /repo's current source
python3 tools/gen_consts.py
# 2. the Coq development: full .vo build (never -vos)
cd coq
coq_makefile -f _CoqProject -o Makefile >/dev/null 2>&1
timeout 3000 make -j16 > ../_build/logs/setup_make.log 2>&1 || { tail -40 ../_build/logs/setup_make.log; exit 1; }
cd ..
# 3. extraction + OCaml driver, 4. Rust harness (both profiles) against /repo
python3 - <<'PY'
import sys
sys.path.insert(0, "tools")
import common as C
ok, out = C.build_driver()
if not ok:
    print(out); sys.exit(1)
ok, out = C.build_harness()
if not ok:
    print(out); sys.exit(1)
print("setup ok")
PY
